"""G-PRATT: the binding-power constants in the generated code of every directly left-recursive rule satisfy the
Pratt correctness inequalities that the *grammar text* implies (branch order, `right` declarations).

From the MIR of `rule_X::rec` the rule reads, per arm of the operator loop: the operator tokens (switch on the
discriminant of Parser.current), the comparison that guards the arm (constant L against the `min_bp` parameter, which
edge leaves the loop), and the constant R handed to the recursive call that parses the right operand; per prefix arm
(before the loop) the tokens and the constant handed to the recursive call; from `rule_X` the constant of the
outermost call.  From the grammar text (llwspec) it reads the recursive branches in the order written, their
operator tokens and the `right` list.

With consume(L, m) := "an operator with left power L is taken by an invocation with minimum m" (the loop-staying edge
of the guard), the unique tree C07 describes is produced iff
  * an infix branch of left-associative tokens:  not consume(L, R)   (its own operator is refused in its right operand)
  * an infix branch of right-associative tokens: consume(L, R)
  * for a branch i written before branch j and every operand power R_i of i (infix right operand, prefix operand):
        not consume(L_j, R_i)      (the looser operator is refused inside the tighter operand)
    and for every operand power R_j of j:  consume(L_i, R_j)  (the tighter operator is taken inside the looser operand)
  * consume(L, m0) for the outermost call's m0 and every L.
Nothing here is a frozen number; any consistent renumbering passes.
"""
import os, re, glob
from . import extract, llwspec, flow
from .skel import P, calls, site, short
from .prov import show, walk
from .facts import MissingAnchor

CMP = {"Lt": lambda a, b: a < b, "Le": lambda a, b: a <= b, "Gt": lambda a, b: a > b, "Ge": lambda a, b: a >= b}


def grammar_path(inst):
    if inst.grammar:
        n = inst.grammar[2:] if inst.grammar.startswith("g_") else inst.grammar
        if n == "selfhost":
            return os.path.join(extract.REPO, "src", "frontend", "lelwel.llw")
        p = os.path.join(extract.CORPUS, "grammars", n + ".llw")
        return p if os.path.exists(p) else os.path.join(extract.CORPUS, "thorough", n + ".llw")
    c = inst.unit.crate
    if c == "lelwel":
        return os.path.join(extract.REPO, "src", "frontend", "lelwel.llw")
    if c.startswith("lelwel_"):
        d = os.path.join(extract.REPO, "examples", c[len("lelwel_"):])
        try:
            m = re.search(r'lelwel::build\("([^"]+\.llw)"\)', open(os.path.join(d, "build.rs")).read())
        except OSError:
            m = None
        if m:
            return os.path.join(d, m.group(1))
    raise MissingAnchor("no grammar file known for parser instance %s" % inst.label)


_SPEC = {}


def spec_of(inst):
    p = grammar_path(inst)
    if p not in _SPEC:
        try:
            g = llwspec.parse_file(p)
            _SPEC[p] = (g, llwspec.First(g))
        except (OSError, llwspec.SpecError) as e:
            raise MissingAnchor("grammar %s cannot be read by llwspec: %s" % (p, e))
    return _SPEC[p]


def token_names(inst):
    adt = inst.token_adt()
    a = inst.unit.adts.get(adt)
    if not a:
        raise MissingAnchor("%s: no enum table for %s" % (inst.label, adt))
    return {v["d"]: v["n"] for v in a["variants"]}


def _is_current_discr(e):
    return e[0] == "discr" and e[1][0] == "field" and e[1][3] == "current" and short(e[1][2]) == "Parser"


_TOKSTATE = {}


def _token_states(body, pr, names):
    """forward dataflow: the set of values Parser.current may have at the entry of each block (refined by every switch on
    its discriminant, reset by every call that receives the parser mutably)"""
    key = id(body)
    if key in _TOKSTATE:
        return _TOKSTATE[key]
    ALL = frozenset(names)

    def stmt(st, pt, it):
        if isinstance(it, dict) and it.get("t") == "call":
            for a in it["args"]:
                pl = a.get("m") or a.get("c")
                if pl is not None and not pl["p"] and body.local_ty(pl["l"]).startswith("&mut ") and "Parser<" in body.local_ty(pl["l"]):
                    return ALL
        return st

    def edge(st, src, tgt, lab):
        t = body.blocks[src]["t"]
        if t["t"] == "switch" and _is_current_discr(pr.operand(t["d"])):
            if lab[0] == "v":
                # several values may share one target: the state on this edge is the union over them, which the join computes
                r = st & {lab[1]}
            else:
                r = st - set(lab[1])
            return frozenset(r) if r else None
        return st

    df = flow.Dataflow(body, ALL, stmt, edge, lambda a, b: a | b).run()
    _TOKSTATE[key] = df.IN
    return df.IN


def _dominating_tokens(body, pr, block, names):
    """token names Parser.current may have when `block` is entered; None when unconstrained"""
    st = _token_states(body, pr, names).get(block)
    if st is None or len(st) == len(names):
        return None
    return frozenset(names[v] for v in st)


def _arm_tokens(body, pr, block, names):
    """tokens selecting the outermost match arm that contains `block`: the state of the first block on the dominator chain
    from the entry to `block` at which Parser.current is constrained (the arm's tokens are consumed further down)"""
    idom = body.idom()
    chain = [block]
    while chain[-1] != 0:
        chain.append(idom[chain[-1]])
    for b in reversed(chain):
        t = _dominating_tokens(body, pr, b, names)
        if t is not None:
            return t
    return None


class RecFacts:
    def __init__(self):
        self.bp_param = None
        self.arms = []      # dict(tokens, op, const_left, L, stay_truth, R:set, site)
        self.prefix = []    # dict(tokens, R, site)
        self.outer = []     # constants of the outermost call(s)
        self.problems = []


def extract_rec(inst, rule, rec, parent):
    names = token_names(inst)
    pr = P(rec)
    rf = RecFacts()
    # the min_bp parameter: a usize parameter compared with a constant
    usize_params = [i for i in range(1, rec.argc + 1) if rec.local_ty(i) == "usize"]
    if not usize_params:
        return rf
    if len(usize_params) != 1:
        rf.problems.append("rec has %d usize parameters, expected one (min_bp)" % len(usize_params))
        return rf
    bp = usize_params[0]
    rf.bp_param = bp
    loops = rec.loops()
    guard_blocks = []
    for b in sorted(rec.reachable()):
        t = rec.blocks[b]["t"]
        if t["t"] != "switch":
            continue
        e = pr.operand(t["d"])
        if e[0] == "bin" and e[1] in CMP and {e[2][0], e[3][0]} == {"const", "param"}:
            par = e[2] if e[2][0] == "param" else e[3]
            con = e[3] if e[2][0] == "param" else e[2]
            if par[1] != bp:
                continue
            guard_blocks.append(b)
            const_left = e[2][0] == "const"
            L = con[2]
            inner = [lp for lp in loops if b in lp["body"]]
            if not inner:
                rf.problems.append("binding-power guard outside any loop at %s" % site(rec, (b, len(rec.blocks[b]["s"]))))
                continue
            lp = min(inner, key=lambda l: len(l["body"]))
            stay = []
            for tgt, lab in rec.succ_edges(b):
                if tgt in lp["body"]:
                    truth = (lab[0] == "else") if [v for v, _ in t["arms"]] == [0] else None
                    if lab[0] == "v":
                        truth = lab[1] != 0
                    stay.append((tgt, truth))
            if len(stay) != 1 or stay[0][1] is None:
                rf.problems.append("binding-power guard with an unrecognised shape (edges staying in the loop: %s)" % (stay,))
                continue
            stay_tgt, stay_truth = stay[0]
            toks = _dominating_tokens(rec, pr, b, names)
            # recursive calls reachable in this arm: blocks dominated by the staying successor
            Rs = set()
            for pt, name, decl, args, ct in calls(rec):
                if _is_rec_call(rec, ct) and rec.dominates(stay_tgt, pt[0]):
                    a = args[bp - 1]
                    if a[0] == "const":
                        Rs.add(a[2])
                    else:
                        rf.problems.append("recursive call with a non-constant minimum binding power: %s" % show(a))
            rf.arms.append({"tokens": toks, "op": e[1], "const_left": const_left, "L": L, "stay_truth": stay_truth, "R": Rs,
                            "site": site(rec, (b, len(rec.blocks[b]["s"])))})
    # prefix arms: recursive calls not dominated by any guard's staying edge
    arm_calls = set()
    for pt, name, decl, args, ct in calls(rec):
        if not _is_rec_call(rec, ct):
            continue
        if any(rec.dominates(g, pt[0]) for g in guard_blocks):
            continue
        a = args[bp - 1]
        if a[0] != "const":
            rf.problems.append("recursive call with a non-constant minimum binding power: %s" % show(a))
            continue
        rf.prefix.append({"tokens": _arm_tokens(rec, pr, pt[0], names), "R": a[2], "site": site(rec, pt)})
    # outermost call(s)
    for body in [parent] + [b for b in inst.nested.get(rule, []) if b is not rec]:
        for pt, name, decl, args, ct in calls(body):
            if _is_rec_call(rec, ct):
                a = args[bp - 1]
                if a[0] == "const":
                    rf.outer.append(a[2])
                else:
                    rf.problems.append("outermost call with a non-constant minimum binding power: %s" % show(a))
    return rf


def _is_rec_call(rec, t):
    k = t["f"].get("k") or {}
    return k.get("fid") == rec.id or k.get("rid") == rec.id


def consume(arm, L, m):
    """does an invocation with minimum m take an operator whose guard constant is L (same comparison as `arm`)"""
    a, b = (L, m) if arm["const_left"] else (m, L)
    return CMP[arm["op"]](a, b) == arm["stay_truth"]


def check_instance(inst, rep, rid="PRATT"):
    g, fs = spec_of(inst)
    n_rules = 0
    for rule, bodies in sorted(inst.nested.items()):
        recs = [b for b in bodies if b.name.endswith("::" + rule + "::rec")]
        if not recs:
            continue
        rec = recs[0]
        rname = rule[len("rule_"):]
        branches = llwspec.pratt_branches(g, rname, fs)
        key0 = "%s|%s" % (inst.label, rule)
        if not any(k in ("left", "leftright") for k, _, _ in branches):
            rep.violation(rid, key0 + "|not-left-recursive-in-text", "%s: the generated parser has a Pratt function for %s but the grammar "
                          "text has no left-recursive branch for it (llwspec and the generator disagree)" % (inst.label, rname))
            continue
        n_rules += 1
        rf = extract_rec(inst, rule, rec, inst.rules[rule])
        for p in rf.problems:
            rep.violation(rid, key0 + "|shape|" + re.sub(r"[0-9]+", "N", p)[:60], "%s %s: %s" % (inst.label, rule, p))
        requires_bp = len(branches) > 1 and any(k in ("right", "leftright") for k, _, _ in branches)
        if rf.bp_param is None:
            if requires_bp:
                rep.violation(rid, key0 + "|no-min-bp", "%s %s: the grammar has %d recursive branches with right operands but the Pratt "
                              "function takes no minimum binding power: precedence cannot be honoured" % (inst.label, rule, len(branches)))
            else:
                rep.ok(rid, "%s %s: single precedence level, no binding powers needed" % (inst.label, rule), nontrivial=False)
            continue
        # map arms / prefix arms to branches by operator tokens
        right = set(g.right)
        by_branch = {}
        unmatched = []
        used = set()
        for kind_want, items in (("arm", rf.arms), ("prefix", rf.prefix)):
            for it in items:
                cands = [i for i, (k, toks, bi) in enumerate(branches)
                         if toks is not None and it["tokens"] is not None and frozenset(toks) == it["tokens"]
                         and ((kind_want == "arm") == (k in ("left", "leftright"))) and (kind_want, i) not in used]
                if len(cands) >= 1:
                    used.add((kind_want, cands[0]))
                    by_branch.setdefault(cands[0], []).append((kind_want, it))
                else:
                    unmatched.append((kind_want, it))
        for kind_want, it in unmatched:
            rep.violation(rid, key0 + "|unmatched-%s|%s" % (kind_want, ",".join(sorted(it["tokens"] or ["?"]))),
                          "%s %s: the %s for tokens %s corresponds to no recursive branch of the grammar text with exactly these operator tokens"
                          % (inst.label, rule, "operator-loop arm" if kind_want == "arm" else "prefix arm", sorted(it["tokens"] or ["?"])), it["site"])
        for i, (k, toks, bi) in enumerate(branches):
            if i not in by_branch:
                rep.violation(rid, key0 + "|branch-without-arm|%d" % i, "%s %s: recursive branch #%d (%s, operator tokens %s) of the grammar has no arm in the "
                              "generated Pratt function" % (inst.label, rule, i, k, sorted(toks or [])))
        if unmatched or any(i not in by_branch for i in range(len(branches))):
            continue
        if not rf.outer:
            rep.violation(rid, key0 + "|no-outer-call", "%s %s: no outermost call of the Pratt function found" % (inst.label, rule))
            continue
        arm0 = rf.arms[0] if rf.arms else None
        info = []
        ok = True
        # operand powers and left powers per branch
        Ls, Rs = {}, {}
        for i, items in by_branch.items():
            for kind, it in items:
                if kind == "arm":
                    Ls[i] = it
                    if it["R"]:
                        if len(it["R"]) != 1:
                            rep.violation(rid, key0 + "|several-R|%d" % i, "%s %s: branch #%d passes several different binding powers to its right operand: %s"
                                          % (inst.label, rule, i, sorted(it["R"])), it["site"])
                            ok = False
                        Rs[i] = sorted(it["R"])[0]
                else:
                    Rs[i] = it["R"]
        for i, (k, toks, bi) in enumerate(branches):
            if k == "leftright" and i not in Rs:
                rep.violation(rid, key0 + "|no-R|%d" % i, "%s %s: infix branch #%d has no recursive call for its right operand" % (inst.label, rule, i), Ls[i]["site"])
                ok = False
        if not ok:
            continue

        def tok(i):
            return "/".join(sorted(branches[i][1] or ["?"]))

        nchecks = 0
        nv0 = len(rep.violations)
        for i, (k, toks, bi) in enumerate(branches):
            if k == "leftright":
                is_right = toks is not None and set(toks) <= right
                mixed = toks is not None and (set(toks) & right) and not is_right
                if mixed:
                    continue  # lelwel rejects mixed associativity (E: mixed_assoc); such a grammar yields no parser
                c = consume(Ls[i], Ls[i]["L"], Rs[i])
                nchecks += 1
                if c != is_right:
                    rep.violation(rid, key0 + "|assoc|" + tok(i), "%s %s: branch `%s %s %s` is declared %s-associative but the generated code "
                                  "(guard %s(%s, min_bp), right operand parsed with minimum %s) groups it to the %s: in `a %s b %s c` the second operator is %s by the right operand"
                                  % (inst.label, rule, rname, tok(i), rname, "right" if is_right else "left", Ls[i]["op"], Ls[i]["L"], Rs[i],
                                     "right" if c else "left", tok(i), tok(i), "taken" if c else "refused"), Ls[i]["site"])
            for j in range(i + 1, len(branches)):
                # i is written before j: i binds tighter
                if i in Rs and j in Ls:
                    nchecks += 1
                    if consume(Ls[j], Ls[j]["L"], Rs[i]):
                        rep.violation(rid, key0 + "|prec|%s>%s" % (tok(i), tok(j)), "%s %s: operator %s (branch #%d) is written before %s (branch #%d) and must bind tighter, "
                                      "but the operand of %s (minimum %s) takes a following %s (left power %s)"
                                      % (inst.label, rule, tok(i), i, tok(j), j, tok(i), Rs[i], tok(j), Ls[j]["L"]), Ls[j]["site"])
                if j in Rs and i in Ls:
                    nchecks += 1
                    if not consume(Ls[i], Ls[i]["L"], Rs[j]):
                        rep.violation(rid, key0 + "|prec|%s>%s|refused" % (tok(i), tok(j)), "%s %s: operator %s (branch #%d) is written before %s (branch #%d) and must bind tighter, "
                                      "but the operand of %s (minimum %s) refuses a following %s (left power %s)"
                                      % (inst.label, rule, tok(i), i, tok(j), j, tok(j), Rs[j], tok(i), Ls[i]["L"]), Ls[i]["site"])
            if i in Ls:
                for m0 in rf.outer:
                    nchecks += 1
                    if not consume(Ls[i], Ls[i]["L"], m0):
                        rep.violation(rid, key0 + "|outer|" + tok(i), "%s %s: the outermost call (minimum %s) refuses operator %s (left power %s)"
                                      % (inst.label, rule, m0, tok(i), Ls[i]["L"]), Ls[i]["site"])
        if len(rep.violations) == nv0:
          rep.ok(rid, "%s %s: %d branches, %d inequalities hold; L=%s R=%s outer=%s" % (
            inst.label, rule, len(branches), nchecks, {tok(i): a["L"] for i, a in Ls.items()}, {tok(i): r for i, r in Rs.items()}, rf.outer))
        rep.count("Pratt inequalities evaluated", nchecks)
    return n_rules
