"""Path queries and small dataflow engines over one Body's CFG.

A *point* is (block, index); index len(stmts) is the terminator.  Statements of a block execute
in order, then the terminator; a Call terminator's effect happens before its return edge.
"""
from collections import deque, defaultdict


def points(body, b):
    blk = body.blocks[b]
    for i, s in enumerate(blk["s"]):
        yield (b, i), s
    yield (b, len(blk["s"])), blk["t"]


def all_points(body):
    for b in sorted(body.reachable()):
        yield from points(body, b)


def item_at(body, pt):
    b, i = pt
    blk = body.blocks[b]
    return blk["s"][i] if i < len(blk["s"]) else blk["t"]


def find_path(body, start, is_target, blocks_point=None, edge_ok=None, include_start=False):
    """BFS over points from `start` (exclusive unless include_start).  Returns the list of points of a
    path to the first point with is_target(pt, item) that passes no point with blocks_point(pt, item)
    and only edges with edge_ok(src_block, tgt_block, label); None if there is none."""
    b0, i0 = start
    q = deque()
    prev = {}

    def scan(b, i_from, came):
        """walk inside block b from index i_from; return ('hit', pt) / ('blocked',) / ('end', lastpt)"""
        blk = body.blocks[b]
        n = len(blk["s"])
        last = came
        for i in range(i_from, n + 1):
            pt = (b, i)
            it = blk["s"][i] if i < n else blk["t"]
            prev.setdefault(pt, last)
            if is_target(pt, it):
                return ("hit", pt)
            if blocks_point and blocks_point(pt, it):
                return ("blocked", pt)
            last = pt
        return ("end", last)

    r = scan(b0, i0 if include_start else i0 + 1, None)
    if r[0] == "hit":
        return _unwind(prev, r[1])
    seen_blocks = set()
    if r[0] == "end":
        q.append((b0, r[1]))
    while q:
        b, last = q.popleft()
        for tgt, lab in body.succ_edges(b):
            if edge_ok and not edge_ok(b, tgt, lab):
                continue
            if tgt in seen_blocks:
                continue
            seen_blocks.add(tgt)
            r = scan(tgt, 0, last)
            if r[0] == "hit":
                return _unwind(prev, r[1])
            if r[0] == "end":
                q.append((tgt, r[1]))
    return None


def _unwind(prev, pt):
    path = [pt]
    while prev.get(pt) is not None:
        pt = prev[pt]
        path.append(pt)
    path.reverse()
    return path


def entry_path(body, is_target, blocks_point=None, edge_ok=None):
    return find_path(body, (0, -1), is_target, blocks_point, edge_ok)


def is_return(pt, it):
    return isinstance(it, dict) and it.get("t") == "return"


def edge_dominates(body, edge, block):
    """every path from entry to `block` takes the CFG edge (src, tgt)"""
    src, tgt = edge
    if block not in body.reachable():
        return True
    seen = {0}
    st = [0]
    if block == 0:
        return False
    while st:
        b = st.pop()
        for s in body.succ(b):
            if b == src and s == tgt:
                continue
            if s not in seen:
                if s == block:
                    return False
                seen.add(s)
                st.append(s)
    return True


def path_blocks(path):
    out = []
    for b, _ in path:
        if not out or out[-1] != b:
            out.append(b)
    return out


def describe_path(body, path, limit=12):
    bl = path_blocks(path)
    parts = []
    for b in bl[:limit]:
        t = body.blocks[b]["t"]
        sp = t.get("sp", {}).get("l", "")
        line = sp.rsplit(":", 2)[-2] if sp.count(":") >= 2 else ""
        parts.append("bb%d%s" % (b, ("@L" + line) if line else ""))
    if len(bl) > limit:
        parts.append("...")
    return " -> ".join(parts)


class Dataflow:
    """Forward dataflow with per-edge transfer.  Subclass / pass callables:
       init: state at entry;  stmt(state, pt, item) -> state;  edge(state, src, tgt, label) -> state or None
       (None = infeasible);  join(a, b) -> state.  States must be hashable/comparable."""

    def __init__(self, body, init, stmt, edge=None, join=None, entry_block=0, region=None, stop_blocks=None):
        self.body = body
        self.init = init
        self.stmt = stmt
        self.edge = edge
        self.join = join
        self.entry = entry_block
        self.region = region
        self.stop_blocks = stop_blocks or ()
        self.IN = {}
        self.OUT = {}
        self.at = {}

    def run(self, max_iter=100000):
        body = self.body
        self.IN = {self.entry: self.init}
        wl = deque([self.entry])
        it = 0
        while wl:
            it += 1
            if it > max_iter:
                raise RuntimeError("dataflow did not converge in %s" % body.name)
            b = wl.popleft()
            st = self.IN[b]
            for pt, item in points(body, b):
                self.at[pt] = st
                st = self.stmt(st, pt, item)
                if st is None:
                    break
            self.OUT[b] = st
            if st is None:
                continue
            if b in self.stop_blocks and b != self.entry:
                continue
            for tgt, lab in body.succ_edges(b):
                if self.region is not None and tgt not in self.region:
                    continue
                s2 = self.edge(st, b, tgt, lab) if self.edge else st
                if s2 is None:
                    continue
                if tgt in self.IN:
                    j = self.join(self.IN[tgt], s2)
                    if j != self.IN[tgt]:
                        self.IN[tgt] = j
                        if tgt not in wl:
                            wl.append(tgt)
                else:
                    self.IN[tgt] = s2
                    wl.append(tgt)
        return self
