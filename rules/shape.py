"""SHAPE: totality of typed-tree accessors on arbitrary (also broken) input, derived from the self-hosted parser.

An accessor (K, T) - typed node K reads its token child of kind T, e.g. RuleDecl::name -> Id - is total iff in
frontend::parser every close of a node of kind K is preceded, after its open, on every *feasible* path by a consumption
(`advance`) taken while the current token is known to be T.  Feasibility uses the token-set dataflow: the entry state of a
rule function is the join of the states at its call sites (rule_rule_decl is only entered with current == Id, so its
`expect!(Id)` cannot fail).  An unwrap of an accessor in the ungated zone is allowed only for total pairs."""
import re
from .facts import MissingAnchor
from .skel import P, calls, site, short
from .prov import show, walk
from . import flow, cg
from .pratt import token_names, _is_current_discr
from .noderules import reaching_kinds


def token_states(body, pr, names, init):
    ALL = frozenset(names)

    KEEP = re.compile(r"Parser::(open|open_before|close|close_root|mark|error|create_node\w*|delete_node\w*|span|active_error|peek|peek_left|get_state|predicate_\w+|assertion_\w+|action_\w+|create_diagnostic)$")

    def stmt(st, pt, it):
        if isinstance(it, dict) and it.get("t") == "call":
            nm = pr.call_expr(it)[1]
            if KEEP.search(nm):
                return st
            for a in it["args"]:
                pl = a.get("m") or a.get("c")
                if pl is not None and not pl["p"] and body.local_ty(pl["l"]).startswith("&mut ") and "Parser<" in body.local_ty(pl["l"]):
                    return ALL
        return st

    def edge(st, src, tgt, lab):
        t = body.blocks[src]["t"]
        if t["t"] == "switch" and _is_current_discr(pr.operand(t["d"])):
            r = (st & {lab[1]}) if lab[0] == "v" else (st - set(lab[1]))
            return frozenset(r) if r else None
        return st
    df = flow.Dataflow(body, frozenset(init), stmt, edge, lambda a, b: a | b).run()
    return df


def accessor_pairs(lib):
    """{accessor function name -> (K, T)} read off the MIR of frontend::ast: the constant token handed to Cst::child_token"""
    tok_adt = [a for a in lib.adts if a.endswith("frontend::lexer::Token")]
    if not tok_adt:
        raise MissingAnchor("enum frontend::lexer::Token not found")
    tnames = {v["d"]: v["n"] for v in lib.adts[tok_adt[0]]["variants"]}
    out = {}
    for b in lib.bodies.values():
        m = re.match(r"^<frontend::ast::(\w+) as frontend::ast::Named>::name$|^frontend::ast::(\w+)::(value|symbol)$", b.name)
        if not m:
            continue
        K = m.group(1) or m.group(2)
        for pt, name, decl, args, t in calls(b):
            if (name.endswith("Cst::child_token") or name.endswith("::child_token")) and len(args) >= 3:
                a = args[2]
                if a[0] == "agg" and a[1][0] == "adt":
                    out[b.name] = (K, a[1][2])
                elif a[0] == "const" and isinstance(a[2], int):
                    out[b.name] = (K, tnames.get(a[2], "?"))
    return out


def total(inst, K, T, names):
    """None if total, else a witness string"""
    byname = {n: d for d, n in names.items()}
    if T not in byname:
        return "token %s unknown" % T
    # entry states: join over call sites (callers analysed with an unconstrained entry)
    entry = {}
    all_bodies = [(r, b) for r, b in inst.all_rule_bodies()]
    for r, b in all_bodies:
        pr = P(b)
        df = token_states(b, pr, names, names)
        for pt, name, decl, args, t in calls(b):
            m = re.search(r"Parser::(rule_\w+)$", name)
            if m:
                st = df.IN.get(pt[0])
                if st is not None:
                    entry.setdefault(m.group(1), set()).update(st)
    found = False
    for r, b in all_bodies:
        ks, _ = reaching_kinds(b)
        closes = [(pt, vals) for pt, vals, l in ks if K in vals]
        if not closes:
            continue
        pr = P(b)
        init = entry.get(r) if b is inst.rules.get(r) and r in entry else names
        df = token_states(b, pr, names, init)
        for cpt, vals in closes:
            found = True
            ct = flow.item_at(b, cpt)
            mk = pr.operand(ct["args"][1])
            # the open that produced this mark
            opens = [pt for pt, name, decl, args, t in calls(b) if (name.endswith("Parser::open") or name.endswith("Parser::open_before"))
                     and mk[0] == "call" and pr.call_expr(t)[4] == mk[4]]
            if not opens:
                return "%s: the mark of the close is not the result of an open in the same function" % b.name
            opt = opens[0]

            def consumes_T(p, it):
                if isinstance(it, dict) and it.get("t") == "call" and pr.call_expr(it)[1].endswith("Parser::advance"):
                    st = df.IN.get(p[0])
                    return st is not None and st <= {byname[T]}
                return False

            def edge_ok(s, t2, lab):
                tt = b.blocks[s]["t"]
                if tt["t"] == "switch" and _is_current_discr(pr.operand(tt["d"])):
                    st = df.OUT.get(s)
                    if st is None:
                        return False
                    r2 = (st & {lab[1]}) if lab[0] == "v" else (st - set(lab[1]))
                    return bool(r2)
                return t2 in df.IN
            path = flow.find_path(b, opt, lambda p, it: p == cpt, blocks_point=consumes_T, edge_ok=edge_ok)
            if path is not None:
                return "%s: a feasible path from the open to the close of Rule::%s consumes no %s token (%s)" % (
                    b.name.split("::parser::")[-1], K, T, flow.describe_path(b, path))
    if not found:
        return "no close of kind %s found" % K
    return None


def shape_rule(ctx, rep, zones_of, rid="SHAPE"):
    rep.rule(rid, "SHAPE: an Option::unwrap/expect applied (directly or through map/and_then) to a typed-tree accessor in code that runs on arbitrary "
                  "input is allowed only if the accessor is total: in the self-hosted parser every close of that node kind is preceded, after its "
                  "open, on every feasible path by the consumption of that token kind (token-set dataflow, entry states from the call sites)")
    lib = ctx.lelwel()
    insts = [i for i in ctx.instances(with_corpus=False) if i.unit is lib and i.prefix == "frontend::parser"]
    if not insts:
        raise MissingAnchor("self-hosted parser instance not found")
    inst = insts[0]
    names = token_names(inst)
    pairs = accessor_pairs(lib)
    if len(pairs) < 8:
        raise MissingAnchor("fewer than 8 typed accessors recognised in frontend::ast (%d)" % len(pairs))
    z = zones_of(ctx)
    cache = {}
    n = 0
    for bid in sorted(z.U, key=lambda i: z.G.bodies[i].name):
        b = z.G.bodies[bid]
        if b.from_generated():
            continue
        for s in cg.panic_sites(b):
            if s["kind"] != "unwrap" or not s["args"]:
                continue
            acc = [x for x in walk(s["args"][0]) if x[0] == "call" and x[1] in pairs]
            if not acc:
                continue
            K, T = pairs[acc[0][1]]
            n += 1
            if (K, T) not in cache:
                cache[(K, T)] = total(inst, K, T, names)
            w = cache[(K, T)]
            if w is None:
                rep.ok(rid, "%s unwraps %s: (%s, %s) is total" % (b.name, acc[0][1].split("::")[-2] + "::" + acc[0][1].split("::")[-1], K, T))
            else:
                rep.violation(rid, "%s|unwrap|%s" % (b.name, acc[0][1]), "%s unwraps %s on arbitrary input, but a %s node need not contain a %s token: %s"
                              % (b.name, acc[0][1], K, T, w), site(b, s["pt"]))
    rep.count("accessor unwraps in the ungated zone", n)
    rep.count("typed accessors recognised", len(pairs))
    if n < 2:
        raise MissingAnchor("SHAPE: expected at least two accessor unwraps in the ungated zone, found %d" % n)


def consumed_between(inst, K, names):
    """token names that an `advance(false)` can consume between the open and the close of a node of kind K (some path)"""
    out = set()
    for r, b in inst.all_rule_bodies():
        ks, _ = reaching_kinds(b)
        closes = [pt for pt, vals, l in ks if K in vals]
        if not closes:
            continue
        pr = P(b)
        df = token_states(b, pr, names, names)
        for cpt in closes:
            ct = flow.item_at(b, cpt)
            mk = pr.operand(ct["args"][1])
            opens = [pt for pt, name, decl, args, t in calls(b) if (name.endswith("Parser::open") or name.endswith("Parser::open_before"))
                     and mk[0] == "call" and pr.call_expr(t)[4] == mk[4]]
            if not opens:
                continue
            # blocks on some path open -> close
            fwd = set()
            st = [opens[0][0]]
            while st:
                x = st.pop()
                if x in fwd:
                    continue
                fwd.add(x)
                if x != cpt[0]:
                    st.extend(b.succ(x))
            bwd = set()
            st = [cpt[0]]
            while st:
                x = st.pop()
                if x in bwd:
                    continue
                bwd.add(x)
                if x != opens[0][0]:
                    st.extend(b.pred(x))
            for blk in fwd & bwd:
                t = b.blocks[blk]["t"]
                if t["t"] == "call" and pr.call_expr(t)[1].endswith("Parser::advance"):
                    s2 = df.IN.get(blk)
                    if s2 is not None and len(s2) < len(names):
                        out |= {names[v] for v in s2}
    return out


def agreement_rule(ctx, rep, rid="ACCTOK"):
    rep.rule(rid, "TABLE AGREEMENT: every typed-tree accessor that reads a token child (RuleDecl::name -> Id, TokenDecl::symbol -> Str, "
                  "Predicate::value -> Predicate, ...) names a token kind that the self-hosted parser can consume directly between the open and "
                  "the close of that node kind; an accessor that asks for a token its node can never own makes the typed view of every file "
                  "lose that name, number or symbol")
    lib = ctx.lelwel()
    insts = [i for i in ctx.instances(with_corpus=False) if i.unit is lib and i.prefix == "frontend::parser"]
    if not insts:
        raise MissingAnchor("self-hosted parser instance not found")
    inst = insts[0]
    names = token_names(inst)
    pairs = accessor_pairs(lib)
    if len(pairs) < 8:
        raise MissingAnchor("fewer than 8 typed accessors recognised in frontend::ast (%d)" % len(pairs))
    cache = {}
    for acc, (K, T) in sorted(pairs.items()):
        if K not in cache:
            cache[K] = consumed_between(inst, K, names)
        toks = cache[K]
        short_acc = "::".join(acc.replace("<", "").replace(">", "").split("::")[-2:])
        if T in toks:
            rep.ok(rid, "%s reads %s; a %s node can own %s" % (short_acc, T, K, sorted(toks)))
        else:
            rep.violation(rid, "%s|%s|%s" % (acc, K, T), "%s reads a token of kind %s, but between the open and the close of a %s node the self-hosted parser "
                          "only consumes %s: the accessor can never succeed" % (acc, T, K, sorted(toks) or "nothing"))
