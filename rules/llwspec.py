"""llwspec: an independent reader of grammar text (.llw).

It reads only what the grammar *author* wrote down: token declarations (name, symbol), `right`/`skip`/`start`/`part`
lists, and the rule bodies as operator trees with the precedence README.md documents (postfix > concatenation >
ordered choice > alternation).  It shares no code with lelwel's front end.  `first()` computes textbook first sets
over those trees; they are used only to tell which *operator tokens* a left-recursive branch names (README: "the
follow set of the first concatenation element defines the operator tokens"), never as a reference for lelwel's own
set computation.
"""
import re

TOK = re.compile(r"""
    (?P<ws>[ \t\r\n\f]+)
  | (?P<doc>///[^\n]*\n?)
  | (?P<lc>//[^\n]*\n?)
  | (?P<bc>/\*.*?\*/)
  | (?P<str>'(?:\\.|[^'\\\n])*')
  | (?P<pred>\?(?:[0-9]+|t))
  | (?P<action>\#[0-9]+)
  | (?P<assertion>![0-9]+)
  | (?P<creation>[0-9]*>(?:[a-zA-Z][a-zA-Z_0-9]*)?)
  | (?P<marker><[0-9]+)
  | (?P<rename>@(?:[a-zA-Z][a-zA-Z_0-9]*)?)
  | (?P<id>[a-zA-Z][a-zA-Z_0-9]*)
  | (?P<punct>[:;=()\[\]|*+^/~&])
""", re.X | re.S)

KEYWORDS = {"token", "start", "right", "skip", "part"}


class SpecError(Exception):
    pass


def tokenize(text):
    out = []
    i = 0
    while i < len(text):
        m = TOK.match(text, i)
        if not m:
            raise SpecError("cannot tokenize at offset %d: %r" % (i, text[i:i + 20]))
        k = m.lastgroup
        if k not in ("ws", "doc", "lc", "bc"):
            out.append((k, m.group(0)))
        i = m.end()
    out.append(("eof", ""))
    return out


class Grammar:
    def __init__(self):
        self.tokens = {}       # name -> symbol or None
        self.symbols = {}      # symbol text (without quotes) -> name
        self.right = []        # token names
        self.skip = []
        self.start = None
        self.parts = []
        self.rules = {}        # name -> tree (or None for an empty rule)
        self.elided = set()
        self.order = []

    def tok(self, t):
        """token name for a ('name', X) / ('sym', s) leaf"""
        if t[0] == "name":
            return t[1]
        if t[0] == "sym":
            n = self.symbols.get(t[1])
            if n is None:
                raise SpecError("symbol %r is not declared" % t[1])
            return n
        raise SpecError("not a token leaf: %r" % (t,))


def parse(text):
    toks = tokenize(text)
    g = Grammar()
    pos = [0]

    def peek():
        return toks[pos[0]]

    def nxt():
        t = toks[pos[0]]
        pos[0] += 1
        return t

    def expect(kind, val=None):
        t = nxt()
        if t[0] != kind or (val is not None and t[1] != val):
            raise SpecError("expected %s %r, found %r" % (kind, val, t))
        return t

    def is_p(v):
        t = peek()
        return t[0] == "punct" and t[1] == v

    def tokref(t):
        if t[0] == "id":
            return t[1]
        s = t[1][1:-1]
        n = g.symbols.get(s)
        if n is None:
            # may be declared later: resolve lazily
            return ("sym", s)
        return n

    def regex():
        return alternation()

    def alternation():
        ops = [ordered_choice()]
        while is_p("|"):
            nxt()
            ops.append(ordered_choice())
        return ops[0] if len(ops) == 1 else ("alt", ops)

    def ordered_choice():
        ops = [concat()]
        while is_p("/"):
            nxt()
            ops.append(concat())
        return ops[0] if len(ops) == 1 else ("oc", ops)

    def starts_postfix():
        t = peek()
        if t[0] == "punct":
            return t[1] in "([^~&"
        return t[0] in ("id", "str", "pred", "action", "assertion", "rename", "marker", "creation")

    def concat():
        ops = [postfix()]
        while starts_postfix():
            ops.append(postfix())
        return ops[0] if len(ops) == 1 else ("cat", ops)

    def postfix():
        t = nxt()
        k, v = t
        if k == "punct" and v == "(":
            if is_p(")"):
                nxt()
                e = ("paren", None)
            else:
                e = ("paren", regex())
                expect("punct", ")")
        elif k == "punct" and v == "[":
            e = ("opt", regex())
            expect("punct", "]")
        elif k == "id":
            e = ("name", v)
        elif k == "str":
            e = ("sym", v[1:-1])
        elif k == "pred":
            e = ("pred", v[1:])
        elif k == "action":
            e = ("action", v[1:])
        elif k == "assertion":
            e = ("assert", v[1:])
        elif k == "rename":
            e = ("rename", v[1:])
        elif k == "marker":
            e = ("marker", v[1:])
        elif k == "creation":
            n, name = v.split(">", 1)
            e = ("creation", n, name)
        elif k == "punct" and v == "^":
            e = ("elision",)
        elif k == "punct" and v == "~":
            e = ("commit",)
        elif k == "punct" and v == "&":
            e = ("return",)
        else:
            raise SpecError("unexpected %r in a rule body" % (t,))
        while is_p("*") or is_p("+"):
            op = nxt()[1]
            e = ("star" if op == "*" else "plus", e)
        return e

    while peek()[0] != "eof":
        t = nxt()
        if t[0] != "id":
            raise SpecError("declaration expected, found %r" % (t,))
        if t[1] == "token":
            while not is_p(";"):
                n = expect("id")[1]
                sym = None
                if is_p("="):
                    nxt()
                    sym = expect("str")[1][1:-1]
                g.tokens[n] = sym
                if sym is not None:
                    g.symbols[sym] = n
            nxt()
        elif t[1] in ("right", "skip"):
            lst = []
            while not is_p(";"):
                x = nxt()
                if x[0] not in ("id", "str"):
                    raise SpecError("token reference expected, found %r" % (x,))
                lst.append(tokref(x))
            nxt()
            (g.right if t[1] == "right" else g.skip).extend(lst)
        elif t[1] == "start":
            g.start = expect("id")[1]
            expect("punct", ";")
        elif t[1] == "part":
            while not is_p(";"):
                g.parts.append(expect("id")[1])
            nxt()
        else:
            name = t[1]
            if is_p("^"):
                nxt()
                g.elided.add(name)
            expect("punct", ":")
            body = None
            if not is_p(";"):
                body = regex()
            expect("punct", ";")
            g.rules[name] = body
            g.order.append(name)

    def resolve(lst):
        out = []
        for x in lst:
            if isinstance(x, tuple):
                n = g.symbols.get(x[1])
                if n is None:
                    raise SpecError("symbol %r is not declared" % x[1])
                out.append(n)
            else:
                out.append(x)
        return out

    g.right = resolve(g.right)
    g.skip = resolve(g.skip)
    return g


def parse_file(path):
    with open(path, encoding="utf-8") as f:
        return parse(f.read())


# -------------------------------------------------------------------------------------------------
# first sets over the trees (textbook definition; fixpoint over rules)
# -------------------------------------------------------------------------------------------------
TRANSPARENT = ("pred", "action", "assert", "rename", "marker", "creation", "elision", "commit", "return")


class First:
    def __init__(self, g):
        self.g = g
        self.nullable = {r: False for r in g.rules}
        self.first = {r: set() for r in g.rules}
        changed = True
        while changed:
            changed = False
            for r, body in g.rules.items():
                n, f = self.of(body) if body is not None else (True, set())
                if n != self.nullable[r] or f != self.first[r]:
                    self.nullable[r] = n
                    self.first[r] = f
                    changed = True

    def of(self, t):
        """(nullable, first token names) of a tree"""
        g = self.g
        k = t[0]
        if k in TRANSPARENT:
            return True, set()
        if k == "sym":
            return False, {g.tok(t)}
        if k == "name":
            if t[1] in g.rules:
                return self.nullable[t[1]], set(self.first[t[1]])
            return False, {t[1]}
        if k == "paren":
            return self.of(t[1]) if t[1] is not None else (True, set())
        if k in ("opt", "star"):
            return True, self.of(t[1])[1]
        if k == "plus":
            return self.of(t[1])
        if k in ("alt", "oc"):
            n = False
            f = set()
            for o in t[1]:
                a, b = self.of(o)
                n = n or a
                f |= b
            return n, f
        if k == "cat":
            return self.seq(t[1])
        raise SpecError("unknown tree node %r" % (k,))

    def seq(self, ops):
        f = set()
        for o in ops:
            a, b = self.of(o)
            f |= b
            if not a:
                return False, f
        return True, f


# -------------------------------------------------------------------------------------------------
# what the author declared about a directly left-recursive rule (README "Direct Left Recursion")
# -------------------------------------------------------------------------------------------------
IGNORED_FOR_RECURSION = ("pred", "rename", "elision", "action")


def pratt_branches(g, rule, fs=None):
    """[(kind, operator token names or None, branch index in the alternation)] for every recursive branch of `rule`
    in the order written; kind in {'left', 'right', 'leftright'}.  Operator tokens of a left/leftright branch: first
    set of what follows the leading self reference; of a right (prefix) branch: first set of the branch."""
    body = g.rules.get(rule)
    if body is None or body[0] != "alt":
        return []
    fs = fs or First(g)
    out = []
    for bi, br in enumerate(body[1]):
        if br[0] != "cat":
            continue
        ops = [(i, o) for i, o in enumerate(br[1]) if o[0] not in IGNORED_FOR_RECURSION]
        if not ops:
            continue
        is_self = lambda o: o[0] == "name" and o[1] == rule
        left = is_self(ops[0][1])
        right = len(ops) > 1 and is_self(ops[-1][1])
        if not left and not right:
            continue
        if left:
            rest = [o for i, o in enumerate(br[1]) if i > ops[0][0] and o[0] != "pred"]
            n, f = fs.seq(rest)
            toks = None if n else f
            out.append(("leftright" if right else "left", toks, bi))
        else:
            n, f = fs.seq(br[1])
            out.append(("right", None if n else f, bi))
    return out


# -------------------------------------------------------------------------------------------------
# follow sets (textbook), with lelwel's end-of-input convention: the start rule is followed by EOF and by the end token of
# every part; a part rule is followed by its own end token EOF<PascalCaseName>
# -------------------------------------------------------------------------------------------------
def pascal(name):
    res = ""
    upper = True
    for c in name:
        if upper:
            res += c.upper()
            upper = False
        elif c == "_":
            upper = True
        else:
            res += c
    return res


class Follow:
    def __init__(self, g, fs=None):
        self.g = g
        self.fs = fs or First(g)
        self.follow = {r: set() for r in g.rules}
        if g.start in self.follow:
            self.follow[g.start].add("EOF")
            for p in g.parts:
                self.follow[g.start].add("EOF" + pascal(p))
        for p in g.parts:
            if p in self.follow:
                self.follow[p].add("EOF" + pascal(p))
        changed = True
        while changed:
            before = {r: len(s) for r, s in self.follow.items()}
            for r, body in g.rules.items():
                if body is not None:
                    self.walk(body, set(self.follow[r]), None)
            changed = any(len(self.follow[r]) != before[r] for r in before)

    def walk(self, t, F, visit):
        """propagate the follow context F into t; `visit(node, F)` is called for every node when given"""
        g, fs = self.g, self.fs
        if visit:
            visit(t, F)
        k = t[0]
        if k == "name":
            if t[1] in g.rules:
                self.follow[t[1]] |= F
        elif k == "cat":
            ops = t[1]
            for i, o in enumerate(ops):
                n, f = fs.seq(ops[i + 1:])
                self.walk(o, set(f) | (set(F) if n else set()), visit)
        elif k in ("alt", "oc"):
            for o in t[1]:
                self.walk(o, set(F), visit)
        elif k == "opt":
            self.walk(t[1], set(F), visit)
        elif k in ("star", "plus"):
            self.walk(t[1], set(fs.of(t[1])[1]) | set(F), visit)
        elif k == "paren":
            if t[1] is not None:
                self.walk(t[1], set(F), visit)


def features(g):
    """which constructs a grammar uses (to decide what an analysis supports)"""
    out = set()

    def rec(t, rule):
        if t is None:
            return
        k = t[0]
        if k == "oc":
            out.add("ordered_choice")
        if k == "pred":
            out.add("predicate")
        if k in ("alt", "oc", "cat"):
            for o in t[1]:
                rec(o, rule)
        elif k in ("star", "plus", "opt", "paren"):
            rec(t[1], rule)
    for r, body in g.rules.items():
        rec(body, r)
        if any(k in ("left", "leftright") for k, _, _ in pratt_branches(g, r)):
            out.add("left_recursion")
    if g.parts:
        out.add("parts")
    return out
