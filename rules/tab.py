"""TAB: exact table extraction for pure functions over a field-less enum by concrete interpretation of their MIR (the abstract
domain is the concrete three-element domain), compared with an oracle computed from the meaning of the operation."""
from itertools import product
from .facts import MissingAnchor
from .skel import P, site


class TabError(Exception):
    pass


def run_body(body, adt_variants, args):
    """interpret `body` on enum arguments (variant names); returns the variant name stored to _0"""
    by_name = {n: d for d, n in adt_variants.items()}
    env = {}
    for i, a in enumerate(args):
        env[i + 1] = ("enum", a)
    b = 0
    steps = 0

    def place(pl):
        v = env.get(pl["l"])
        if v is None:
            raise TabError("read of unset local _%d" % pl["l"])
        for pr in pl["p"]:
            if pr == "*":
                continue
            if isinstance(pr, dict) and "f" in pr and v[0] == "tuple" and pr["f"] < len(v[1]):
                v = v[1][pr["f"]]
                continue
            raise TabError("projection %s" % (pr,))
        return v

    def operand(o):
        if "c" in o or "m" in o:
            return place(o.get("c") or o.get("m"))
        k = o["k"]
        if "v" in k:
            return ("int", k["v"])
        raise TabError("constant %s" % k)

    while True:
        steps += 1
        if steps > 200:
            raise TabError("no termination")
        blk = body.blocks[b]
        for s in blk["s"]:
            if "rv" not in s:
                raise TabError("statement kind")
            rv = s["rv"]
            r = rv["r"]
            if r == "use":
                val = operand(rv["o"])
            elif r in ("ref",):
                val = place(rv["p"])
            elif r == "discr":
                v = place(rv["p"])
                if v[0] != "enum":
                    raise TabError("discriminant of non-enum")
                val = ("int", by_name[v[1]])
            elif r == "agg":
                if rv["k"] == "adt":
                    val = ("enum", rv["v"])
                elif rv["k"] == "tuple":
                    val = ("tuple", tuple(operand(o) for o in rv["ops"]))
                else:
                    raise TabError("aggregate " + rv["k"])
            else:
                raise TabError("rvalue " + r)
            if s["a"]["p"]:
                raise TabError("store through projection")
            env[s["a"]["l"]] = val
        t = blk["t"]
        if t["t"] == "goto":
            b = t["to"]
        elif t["t"] == "switch":
            v = operand(t["d"])
            if v[0] != "int":
                raise TabError("switch on non-integer")
            for val, tgt in t["arms"]:
                if val == v[1]:
                    b = tgt
                    break
            else:
                b = t["else"]
        elif t["t"] == "return":
            r = env.get(0)
            if r is None or r[0] != "enum":
                raise TabError("no enum result")
            return r[1]
        else:
            raise TabError("terminator " + t["t"])


# ---- the oracle: an elision class is the set of possible answers to "was ^ visited on this path" ------------------------------
SEM = {"None": frozenset([False]), "Unconditional": frozenset([True]), "Conditional": frozenset([False, True])}
INV = {v: k for k, v in SEM.items()}


def oracle(op, a, b=None):
    A = SEM[a]
    if op == "alt":
        return INV[A | SEM[b]]
    if op == "concat":
        return INV[frozenset(x or y for x in A for y in SEM[b])]
    if op == "opt":
        return INV[A | frozenset([False])]
    raise KeyError(op)


def elision_tables(ctx, rep, rid="TAB"):
    rep.rule(rid, "TAB: RuleNodeElision::{alt, concat, opt} - the algebra that classifies, per regex, whether the node-elision operator `^` is "
                  "visited on no, every or some path - are extracted as complete tables by interpreting their MIR on all inputs and compared with "
                  "the path-set semantics (alt = union of the branches' outcomes, concat = 'either part visited it', opt = union with 'not "
                  "visited'); the oracle is computed from that definition, not copied from the code. 9 + 9 + 3 entries")
    lib = ctx.lelwel()
    adt = [a for a in lib.adts if a.endswith("sema::RuleNodeElision")]
    if not adt:
        raise MissingAnchor("enum RuleNodeElision not found")
    variants = {v["d"]: v["n"] for v in lib.adts[adt[0]]["variants"]}
    if set(variants.values()) != set(SEM):
        raise MissingAnchor("RuleNodeElision variants changed: %s" % sorted(variants.values()))
    for op, arity in (("alt", 2), ("concat", 2), ("opt", 1)):
        b = lib.one("frontend::sema::RuleNodeElision::" + op)
        for args in product(sorted(SEM), repeat=arity):
            want = oracle(op, *args)
            try:
                got = run_body(b, variants, args)
            except TabError as e:
                rep.violation(rid, "%s|not-a-table" % op, "RuleNodeElision::%s is no longer a pure table over the enum (%s): fail closed" % (op, e), "%s:%d" % (b.file, b.line))
                break
            if got == want:
                rep.ok(rid, "%s(%s) = %s" % (op, ", ".join(args), got))
            else:
                rep.violation(rid, "%s|%s" % (op, ",".join(args)), "RuleNodeElision::%s(%s) returns %s, but the path-set meaning of the operands gives %s: rules using "
                              "`^` under this combination get the wrong elision class (a node is dropped or kept against the grammar)" % (op, ", ".join(args), got, want),
                              "%s:%d" % (b.file, b.line))
