"""C05 rules on generated rule functions: which node kinds a rule can close (KINDSET, against the grammar text) and that the
kind used by a close inside a loop was decided in the current iteration (FRESH)."""
import re
from .facts import MissingAnchor
from .skel import P, calls, site, fn_tail
from .prov import show, walk
from . import flow, llwspec
from .pratt import spec_of


def pascal(name):
    res = ""
    upper = True
    for c in name:
        if upper:
            res += c.upper()
            upper = False
        elif c == "_":
            upper = True
        else:
            res += c
    return res


def _names_in(tree, out):
    """rename and creation names written in a rule body ('' = the rule's own name)"""
    if tree is None:
        return
    k = tree[0]
    if k == "rename":
        out.add(("rename", tree[1]))
    elif k == "creation":
        out.add(("creation", tree[2]))
    elif k in ("alt", "oc", "cat"):
        for o in tree[1]:
            _names_in(o, out)
    elif k in ("star", "plus", "opt", "paren"):
        _names_in(tree[1], out)


def reaching_kinds(b):
    """for every close/close_root/create_node call of a body: the set of Rule constants that can reach its kind operand"""
    pr = P(b)
    locs = [l for l in range(len(b.locals)) if b.local_ty(l).endswith("::Rule") and len(b.defs().get(l, [])) > 1]

    def stmt(state, p, it):
        if isinstance(it, dict) and "rv" in it and not it["a"]["p"] and it["a"]["l"] in locs:
            e = pr.rvalue(it["rv"])
            if e[0] == "agg" and e[1][0] == "adt":
                val = e[1][2]
            elif e[0] == "local" and e[1] in locs:
                # copy of another tracked local (node_kind = node_kind_state)
                return frozenset([(l, v) for l, v in state if l != it["a"]["l"]] + [(it["a"]["l"], v) for l, v in state if l == e[1]])
            else:
                val = "?" + show(e, 40)
            return frozenset([(l, v) for l, v in state if l != it["a"]["l"]] + [(it["a"]["l"], val)])
        return state
    # closures of this body (ordered-choice attempts) assign the captured kind variable through an upvar: weak update at the call
    clos = {}
    for c in b.unit.bodies.values():
        if c.parent_id == b.id and c.kind == "Closure":
            cp = P(c)
            vals = set()
            for p2, it in flow.all_points(c):
                if isinstance(it, dict) and "rv" in it and it["a"]["p"]:
                    e = cp.rvalue(it["rv"])
                    if e[0] == "agg" and e[1][0] == "adt" and e[1][1].endswith("::Rule"):
                        vals.add(e[1][2])
            clos[c.id] = vals
    base_stmt = stmt

    def stmt(state, p, it):
        state = base_stmt(state, p, it)
        if isinstance(it, dict) and it.get("t") == "call" and clos:
            k = it["f"].get("k") or {}
            hit = set()
            for cid, vals in clos.items():
                if cid in (k.get("rid"), k.get("fid")) or any(cid == (a.get("k") or {}).get("closure") for a in it["args"] if isinstance(a, dict) and "k" in a) \
                        or any(x[0] in ("closure",) and x[1] == cid or (x[0] == "agg" and x[1][0] == "closure" and x[1][1] == cid) for a in pr.call_expr(it)[2] for x in walk(a)):
                    hit |= vals
            if hit:
                return frozenset(set(state) | {(l, v) for l in locs for v in hit})
        return state
    df = flow.Dataflow(b, frozenset(), stmt, None, lambda x, y: x | y).run()
    out = []
    for pt, name, decl, args, t in calls(b):
        if name.endswith("Parser::close") or name.endswith("Parser::close_root"):
            k = args[2] if len(args) > 2 else None
            if k is None:
                continue
            if k[0] == "agg" and k[1][0] == "adt":
                out.append((pt, {k[1][2]}, None))
            elif k[0] == "local":
                vals = {v for l, v in (df.at.get(pt) or ()) if l == k[1]}
                out.append((pt, vals, k[1]))
            else:
                out.append((pt, {"?" + show(k, 40)}, None))
    return out, locs


def kindset_rule(ctx, rep, rid="KINDSET"):
    rep.rule(rid, "TRANSLATION AGREEMENT: for every rule function of the analysed parsers the node kinds that can reach a close call (reaching constants "
                  "of the kind operand) are exactly those the grammar text allows for that rule: the rule's own name (unless every path renames or "
                  "elides it), the names of its renames `@x` and of its node creations `n>x`, and Error (for `&`); every rename and creation written in "
                  "the rule body occurs among them")
    n = 0
    for inst in ctx.instances(with_corpus=True):
        try:
            g, fs = spec_of(inst)
        except MissingAnchor:
            continue
        for rule, body in sorted(inst.rules.items()):
            rname = rule[len("rule_"):]
            if rname not in g.rules:
                rep.violation(rid, "%s|%s|unknown-rule" % (inst.label, rule), "%s: generated function %s has no rule in the grammar text" % (inst.label, rule))
                continue
            names = set()
            _names_in(g.rules[rname], names)
            allowed = {pascal(rname), "Error"} | {pascal(x or rname) for _, x in names}
            required = {pascal(x or rname) for _, x in names}
            got = set()
            unknown = []
            for b in [body] + inst.nested.get(rule, []):
                ks, _ = reaching_kinds(b)
                for pt, vals, l in ks:
                    for v in vals:
                        if v.startswith("?"):
                            unknown.append((b, pt, v))
                        else:
                            got.add(v)
            n += 1
            key = "%s|%s" % (inst.label, rule)
            if unknown:
                b, pt, v = unknown[0]
                rep.violation(rid, key + "|unknown-kind", "%s %s: the kind operand of a close is not a constant the rule can follow (%s)" % (inst.label, rule, v), site(b, pt))
            elif got - allowed:
                rep.violation(rid, key + "|extra|" + ",".join(sorted(got - allowed)), "%s %s: the rule can close a node of kind %s, which the grammar text of `%s` "
                              "does not name (allowed: %s)" % (inst.label, rule, sorted(got - allowed), rname, sorted(allowed)), site(body, (0, 0)))
            elif required - got:
                rep.violation(rid, key + "|missing|" + ",".join(sorted(required - got)), "%s %s: the grammar text renames/creates %s in rule `%s`, but no close in the "
                              "generated function can produce that kind" % (inst.label, rule, sorted(required - got), rname), site(body, (0, 0)))
            else:
                rep.ok(rid, "%s %s: closes %s" % (inst.label, rule, sorted(got)), nontrivial=bool(names))
    rep.count("rule functions compared with the grammar text", n)
    rep.floor(rid, 300, "rule functions")


def fresh_rule(ctx, rep, rid="FRESH"):
    rep.rule(rid, "DOM: in a generated rule function that keeps the node kind in a variable (rules with renames), a close inside a loop uses a kind "
                  "that was assigned in the current iteration: every path from the loop header to such a close passes an assignment to the kind "
                  "variable (otherwise a branch without a rename of its own closes its node under the rename left over from an earlier iteration "
                  "or from the prefix branch)")
    n = 0
    for inst in ctx.instances(with_corpus=True):
        for rule, b in inst.all_rule_bodies():
            ks, locs = reaching_kinds(b)
            if not locs:
                continue
            loops = b.loops()
            for pt, vals, l in ks:
                if l is None:
                    continue
                inner = [lp for lp in loops if pt[0] in lp["body"]]
                if not inner:
                    continue
                lp = min(inner, key=lambda x: len(x["body"]))
                n += 1

                def assigns(p, it, l=l):
                    return isinstance(it, dict) and "rv" in it and not it["a"]["p"] and it["a"]["l"] == l
                path = flow.find_path(b, (lp["header"], -1), lambda p, it: p == pt, blocks_point=assigns,
                                      edge_ok=lambda s, t, lab: t in lp["body"])
                key = "%s|%s|close-in-loop" % (inst.label, b.name.split("::parser::")[-1])
                if path is None:
                    rep.ok(rid, "%s %s: kind of the close at %s is assigned in the same iteration" % (inst.label, rule, site(b, pt).rsplit("/", 1)[-1]))
                else:
                    rep.violation(rid, key, "%s: in %s a close inside a loop can use the node kind left over from a previous iteration or from before the "
                                  "loop (possible kinds here: %s): a left-recursive branch without its own rename is then named after another branch"
                                  % (inst.label, b.name.split("::parser::")[-1], sorted(vals)), site(b, pt), flow.describe_path(b, path))
    rep.count("closes inside loops that use a kind variable", n)
    rep.floor(rid, 10, "closes in loops")


# -------------------------------------------------------------------------------------------------
# N1: typestate of node marks in generated code (C02)
# -------------------------------------------------------------------------------------------------
def typestate_rule(ctx, rep, rid="N1"):
    rep.rule(rid, "TS: in every generated rule function (and attempt closure) each mark returned by Parser::open / Parser::open_before is passed to "
                  "exactly one Parser::close / close_root on every path to a normal return (`()` or `Some(())`) and before the same open executes "
                  "again, and to at most one on a path that fails with `None` (the node is then truncated with the attempt): no node is left open, "
                  "and none is closed twice")
    n = 0
    for inst in ctx.instances(with_corpus=True):
        bodies = []
        for rule, b in inst.all_rule_bodies():
            bodies.append(b)
        for b in bodies:
            pr = P(b)
            is_opt = b.ret_ty().startswith("std::option::Option")
            opens = [(pt, t) for pt, name, decl, args, t in calls(b) if name.endswith("Parser::open") or name.endswith("Parser::open_before")]
            for pt, t in opens:
                d = t["dest"]
                if d["p"]:
                    continue
                m = d["l"]
                n += 1
                open_e = pr.call_expr(t)

                def is_close(it):
                    if not (isinstance(it, dict) and it.get("t") == "call"):
                        return False
                    ce = pr.call_expr(it)
                    if not (ce[1].endswith("Parser::close") or ce[1].endswith("Parser::close_root")):
                        return False
                    a = ce[2][1] if len(ce[2]) > 1 else None
                    if a is None:
                        return False
                    if a[0] == "call" and a[1] == open_e[1] and a[4] == open_e[4]:
                        return True
                    return a[0] == "local" and a[1] == m
                start = t["to"]
                if start is None:
                    continue
                seen = set()
                st = [(start, 0, None)]
                bad = None
                while st and bad is None:
                    blk, cnt, ret = st.pop()
                    if (blk, cnt, ret) in seen:
                        continue
                    seen.add((blk, cnt, ret))
                    if blk == pt[0]:
                        if cnt != 1:
                            bad = ("the same open executes again", cnt, blk)
                        continue
                    for p, it in flow.points(b, blk):
                        if isinstance(it, dict) and "rv" in it and it["a"] == {"l": 0, "p": []}:
                            e = pr.rvalue(it["rv"])
                            if e[0] == "agg" and e[1][0] == "adt":
                                ret = e[1][2]
                        if isinstance(it, dict) and it.get("t") == "call" and it["dest"] == {"l": 0, "p": []}:
                            nm = pr.call_expr(it)[1]
                            if nm.endswith("from_residual"):
                                ret = "None"
                        if is_close(it):
                            cnt = min(cnt + 1, 3)
                    tt = b.blocks[blk]["t"]
                    if tt["t"] == "return":
                        if is_opt and ret == "None":
                            if cnt > 1:
                                bad = ("a failing return", cnt, blk)
                        elif cnt != 1:
                            bad = ("a normal return", cnt, blk)
                        continue
                    for s in b.succ(blk):
                        st.append((s, cnt, ret))
                fn = b.name.split("::parser::")[-1]
                if bad:
                    rep.violation(rid, "%s|%s|%s" % (inst.label, fn, "unclosed" if bad[1] == 0 else "closed-%d-times" % bad[1]),
                                  "%s: in %s the node opened at %s is closed %d time(s) on a path to %s: %s" % (
                                      inst.label, fn, site(b, pt).rsplit("/", 1)[-1], bad[1], bad[0],
                                      "the node stays a placeholder and its extent is never set" if bad[1] == 0 else "the second close overwrites the first node's kind and extent"),
                                  site(b, pt))
                else:
                    rep.ok(rid, "%s %s: mark opened at %s closed exactly once" % (inst.label, fn, site(b, pt).rsplit("/", 1)[-1]))
    rep.count("marks followed", n)
    rep.floor(rid, 400, "marks")


# -------------------------------------------------------------------------------------------------
# MARKPOS: a mark used for a node creation lies inside the rule's own node (C05)
# -------------------------------------------------------------------------------------------------
def markpos_rule(ctx, rep, rid="MARKPOS"):
    rep.rule(rid, "DOM: when a generated rule function wraps already parsed elements into a new node (`open_before(mark)`) and the function has opened "
                  "a node of its own before that point, the mark was taken after that open: a mark taken before the rule's own `open` denotes a "
                  "position in the parent, so the created node would be inserted in front of the rule's node, whose own mark then points at the "
                  "created node (a marker/creation pair must wrap exactly the elements parsed between marker and creation, inside the rule)")
    n = 0
    for inst in ctx.instances(with_corpus=True):
        for rule, b in inst.all_rule_bodies():
            pr = P(b)
            opens = [pt for pt, name, decl, args, t in calls(b) if name.endswith("Parser::open")]
            if not opens:
                continue
            for pt, name, decl, args, t in calls(b):
                if not name.endswith("Parser::open_before"):
                    continue
                mk = args[1]
                if not (mk[0] == "call" and mk[1].endswith("Parser::mark")):
                    continue   # marks of other origin (a closed node in a Pratt loop, a captured mark) are not positions taken by mark()
                mpts = [p2 for p2, n2, d2, a2, t2 in calls(b) if n2.endswith("Parser::mark") and pr.call_expr(t2)[4] == mk[4]]
                if not mpts:
                    continue
                mpt = mpts[0]
                n += 1
                bad = [o for o in opens if b.dominates(o[0], pt[0]) and o[0] != pt[0] and not b.dominates(o[0], mpt[0])]
                fn = b.name.split("::parser::")[-1]
                if bad:
                    rep.violation(rid, "%s|%s|mark-before-open" % (inst.label, fn), "%s: in %s the mark handed to open_before at %s was taken before the function opened its own "
                                  "node (%s): the created node is inserted in front of the rule's node instead of inside it" % (
                                      inst.label, fn, site(b, pt).rsplit("/", 1)[-1], site(b, bad[0]).rsplit("/", 1)[-1]), site(b, mpt))
                else:
                    rep.ok(rid, "%s %s: mark for the creation at %s lies inside the rule's node" % (inst.label, fn, site(b, pt).rsplit("/", 1)[-1]))
    rep.count("creations from a mark in functions with an own node", n)
    rep.floor(rid, 8, "creations")


# -------------------------------------------------------------------------------------------------
# N2: the created-callback announces the kind that was just closed (C02)
# -------------------------------------------------------------------------------------------------
def callback_rule(ctx, rep, rid="N2"):
    rep.rule(rid, "DOM+PROV: every `create_node_<k>` callback in generated rule code is dominated by a close whose kind is the constant Rule::<K> "
                  "(PascalCase of k), and the generic `create_node(kind, ..)` is handed the same kind variable as the nearest dominating close: "
                  "when a node-created callback fires, the announced node already has the announced kind")
    n = 0
    for inst in ctx.instances(with_corpus=True):
        for rule, b in inst.all_rule_bodies():
            pr = P(b)
            closes = []
            for pt, name, decl, args, t in calls(b):
                if name.endswith("Parser::close") or name.endswith("Parser::close_root"):
                    closes.append((pt, args[2] if len(args) > 2 else None))
            for pt, name, decl, args, t in calls(b):
                m = re.search(r"(?:Parser|ParserCallbacks[^:]*)::create_node(_\w+)?$", name)
                if not m or name.endswith("create_node_error") and False:
                    continue
                doms = [(cp, k) for cp, k in closes if cp[0] != pt[0] and b.dominates(cp[0], pt[0])]
                fn = b.name.split("::parser::")[-1]
                n += 1
                if not doms:
                    rep.violation(rid, "%s|%s|%s|no-close" % (inst.label, fn, name.split("::")[-1]), "%s: in %s the callback %s is not preceded by a close on every path: "
                                  "a node would be announced before it exists with its kind and extent" % (inst.label, fn, name.split("::")[-1]), site(b, pt))
                    continue
                # nearest dominating close
                cp, k = max(doms, key=lambda d: sum(1 for d2 in doms if b.dominates(d2[0][0], d[0][0])))
                if m.group(1):
                    want = pascal(m.group(1)[1:])
                    got = k[1][2] if (k is not None and k[0] == "agg" and k[1][0] == "adt") else None
                    if got == want:
                        rep.ok(rid, "%s %s: create_node%s after close(Rule::%s)" % (inst.label, fn, m.group(1), want))
                    else:
                        rep.violation(rid, "%s|%s|create_node%s|kind" % (inst.label, fn, m.group(1)), "%s: in %s the callback create_node%s fires after a close with kind %s, not Rule::%s: "
                                      "the announced node does not have the announced kind" % (inst.label, fn, m.group(1), show(k, 40) if k else "?", want), site(b, pt))
                else:
                    ka = args[1] if len(args) > 1 else None
                    same = ka is not None and k is not None and ((ka[0] == "local" and k[0] == "local" and ka[1] == k[1]) or ka == k)
                    if same:
                        rep.ok(rid, "%s %s: create_node(kind) with the kind of the preceding close" % (inst.label, fn))
                    else:
                        rep.violation(rid, "%s|%s|create_node|kind" % (inst.label, fn), "%s: in %s the generic created callback is handed `%s` but the preceding close used `%s`"
                                      % (inst.label, fn, show(ka, 40) if ka else "?", show(k, 40) if k else "?"), site(b, pt))
    rep.count("created callbacks", n)
    rep.floor(rid, 500, "created callbacks")
