"""C17 rules on backend::format: KEEP (no tree child is dropped except whitespace), BAL (indent signals balance on every
path), RAW (raw token text reaching push_string), LEXFACT (token-definition facts the audited table relies on),
KINDS (node kinds whose formatter arm is unreachable!() are never closed by the self-hosted parser)."""
import re, os
from collections import defaultdict
from .facts import MissingAnchor, clean
from .skel import P, calls, site, fn_tail, short
from .prov import show, walk
from . import flow, lrules, extract


def fmt_bodies(lib):
    out = [b for b in lrules.user_bodies(lib) if b.name.startswith("backend::format::")]
    if len(out) < 10:
        raise MissingAnchor("backend::format: expected the formatter's helper functions, found %d bodies" % len(out))
    return out


def _enum(lib, tail):
    c = [a for a in lib.adts if a.endswith(tail)]
    if not c:
        raise MissingAnchor("enum table for %s not found" % tail)
    return {v["d"]: v["n"] for v in lib.adts[c[0]]["variants"]}


def _is_next(name):
    return bool(re.search(r"<frontend::parser::CstChildren(<[^>]*>)? as std::iter::Iterator>::next$|<std::vec::IntoIter<.*> as std::iter::Iterator>::next$"
                          r"|<std::iter::Peekable<.*> as std::iter::Iterator>::next$|std::iter::Peekable<.*>::next_if(_eq)?$", name))


def _derives(e, call_e):
    """does expression e contain the call expression call_e (same callee and same source location)?"""
    for x in walk(e):
        if x[0] == "call" and x[1] == call_e[1] and x[4] == call_e[4]:
            return True
    return False


# ------------------------------------------------------------------------------------------------
# KEEP
# ------------------------------------------------------------------------------------------------
def keep_rule(ctx, rep, rid="KEEP"):
    rep.rule(rid, "SWITCH: in every function of backend::format, from the point a child is taken from the tree's child iterator to the point the "
                  "next child is taken (or the function returns), every path either hands that child to gen_node or pushes the child's own token "
                  "text, or is constrained by the switches it passed to `child is a Whitespace token`; gen_node's token arm pushes the text of "
                  "every token kind except Whitespace")
    lib = ctx.lelwel()
    node_names = _enum(lib, "frontend::parser::Node")
    tok_names = _enum(lib, "frontend::lexer::Token")
    ALLK = frozenset(["Rule"] + list(tok_names.values()))
    nsrc = 0
    for b in fmt_bodies(lib):
        pr = P(b)
        for pt, name, decl, args, t in calls(b):
            if not _is_next(name):
                continue
            nsrc += 1
            call_e = pr.call_expr(t)
            # the Some edge
            sw = t["to"]
            some_tgt = None
            if sw is not None and b.blocks[sw]["t"]["t"] == "switch":
                st = b.blocks[sw]["t"]
                e = pr.operand(st["d"])
                if e[0] == "discr" and _derives(e, call_e):
                    for v, tg in st["arms"]:
                        if v == 1:
                            some_tgt = tg
            if some_tgt is None:
                rep.violation(rid, "%s|shape" % b.name, "%s: a child is taken from the iterator in a shape the rule does not recognise (fail closed)" % b.name, site(b, pt))
                continue
            stop_blocks = {bb for bb, ct in b.calls() if _is_next(pr.call_expr(ct)[1])}

            def is_keep(it):
                if not (isinstance(it, dict) and it.get("t") == "call"):
                    return False
                ce = pr.call_expr(it)
                if ce[1].endswith("backend::format::gen_node") and len(ce[2]) > 1 and _derives(ce[2][1], call_e):
                    return True
                if ce[1].endswith("PrintItems::push_string") and len(ce[2]) > 1:
                    for x in walk(ce[2][1]):
                        if x[0] == "call" and x[1].endswith("Cst::span_text") and any(_derives(a, call_e) for a in x[2]):
                            return True
                return False

            def stmt(state, p, it):
                if is_keep(it):
                    return frozenset((True, k) for _, k in state)
                return state

            def edge(state, src, tgt, lab):
                tt = b.blocks[src]["t"]
                if tt["t"] != "switch":
                    return state
                e = pr.operand(tt["d"])
                if e[0] != "discr" or not _derives(e, call_e):
                    return state
                adt = e[2]
                inner = e[1]
                if adt.endswith("parser::Node") and inner[0] == "call" and inner[1].endswith("Cst::get"):
                    if lab[0] == "v":
                        vn = node_names.get(lab[1])
                        keepk = (lambda k: k == "Rule") if vn == "Rule" else (lambda k: k != "Rule")
                    else:
                        seen = {node_names.get(v) for v in lab[1]}
                        keepk = lambda k: ("Rule" if k == "Rule" else "Token") not in seen
                elif adt.endswith("lexer::Token"):
                    if lab[0] == "v":
                        vn = tok_names.get(lab[1])
                        keepk = lambda k: k == vn
                    else:
                        seen = {tok_names.get(v) for v in lab[1]}
                        keepk = lambda k: k not in seen and k != "Rule"
                else:
                    return state
                r = frozenset((kept, k) for kept, k in state if keepk(k))
                return r if r else None

            init = frozenset((False, k) for k in ALLK)
            region = None
            df = flow.Dataflow(b, init, stmt, edge, lambda x, y: x | y, entry_block=some_tgt, stop_blocks=stop_blocks).run()
            bad = set()
            ends = [bb for bb in df.IN if (bb in stop_blocks and bb != some_tgt) or b.blocks[bb]["t"]["t"] == "return"]
            for bb in ends:
                st = df.IN[bb] if bb in stop_blocks else df.OUT.get(bb)
                for kept, k in (st or ()):
                    if not kept and k != "Whitespace":
                        bad.add(k)
            fn = b.name.split("::")[-1]
            if bad:
                kinds = sorted(bad)
                rep.violation(rid, "%s|drops|%s" % (b.name, ",".join(kinds)[:80]), "%s: a child taken from the tree can reach the next iteration (or the end of the "
                              "function) without being formatted when it is %s: that text would be missing from the formatter's output"
                              % (b.name, ", ".join(kinds[:12]) + (" ..." if len(kinds) > 12 else "")), site(b, pt))
            else:
                rep.ok(rid, "%s: every child taken at %s is formatted unless it is whitespace" % (fn, site(b, pt).rsplit("/", 1)[-1]))
    # gen_node's token arm (the push may sit in a helper that gen_node hands the token to)
    gn = [b for b in fmt_bodies(lib) if b.name == "backend::format::gen_node"]
    if not gn:
        raise MissingAnchor("backend::format::gen_node not found")
    by_name = {b.name: b for b in fmt_bodies(lib)}
    memo = {}

    def dropped_kinds(b, depth=0, text_params=frozenset()):
        """token kinds for which some path through `b` returns without pushing the token's text (`text_params`: parameters that
        carry the token's text at the call site under analysis)"""
        mkey = (b.name, text_params)
        if mkey in memo:
            return memo[mkey]
        memo[mkey] = set(ALLK)
        pr = P(b)

        def is_text(e):
            return any((x[0] == "call" and x[1].endswith("Cst::span_text")) or (x[0] == "param" and x[1] in text_params) for x in walk(e))

        def stmt2(state, p, it):
            if isinstance(it, dict) and it.get("t") == "call":
                ce = pr.call_expr(it)
                if ce[1].endswith("PrintItems::push_string") and is_text(ce[2][1]):
                    return frozenset((True, k) for _, k in state)
                callee = by_name.get(ce[1]) or by_name.get("backend::format::" + ce[1].rsplit("::", 1)[-1])
                if callee is not None and callee.name != "backend::format::gen_node" and callee.name != b.name and depth < 2 \
                        and any("lexer::Token" in (callee.local_ty(l) or "") for l in range(1, callee.argc + 1)):
                    dk = dropped_kinds(callee, depth + 1, frozenset(i + 1 for i, a in enumerate(ce[2]) if is_text(a)))
                    return frozenset(((True if k not in dk else kept), k) for kept, k in state)
            return state

        def edge2(state, src, tgt, lab):
            tt = b.blocks[src]["t"]
            if tt["t"] != "switch":
                return state
            e = pr.operand(tt["d"])
            if e[0] != "discr":
                return state
            if e[2].endswith("parser::Node"):
                if lab[0] == "v":
                    vn = node_names.get(lab[1])
                    f = (lambda k: k == "Rule") if vn == "Rule" else (lambda k: k != "Rule")
                else:
                    seen = {node_names.get(v) for v in lab[1]}
                    f = lambda k: ("Rule" if k == "Rule" else "Token") not in seen
            elif e[2].endswith("lexer::Token"):
                if lab[0] == "v":
                    vn = tok_names.get(lab[1])
                    f = lambda k: k == vn
                else:
                    seen = {tok_names.get(v) for v in lab[1]}
                    f = lambda k: k not in seen and k != "Rule"
            else:
                return state
            r = frozenset(x for x in state if f(x[1]))
            return r if r else None

        df = flow.Dataflow(b, frozenset((False, k) for k in ALLK), stmt2, edge2, lambda x, y: x | y).run()
        bad = set()
        for bb in b.exits():
            for kept, k in (df.OUT.get(bb) or ()):
                if not kept:
                    bad.add(k)
        memo[mkey] = bad
        return bad

    b = gn[0]
    bad = {k for k in dropped_kinds(b) if k not in ("Whitespace", "Rule")}
    if bad:
        rep.violation(rid, "backend::format::gen_node|token-arm|%s" % ",".join(sorted(bad))[:80], "gen_node returns without pushing the text of tokens of kind %s: "
                      "they would vanish from the formatted file" % ", ".join(sorted(bad)), site(b, (0, 0)))
    else:
        rep.ok(rid, "gen_node: the text of every token kind except Whitespace reaches push_string (%d kinds)" % (len(tok_names) - 1))
    rep.count("child sources (iterator next calls) in backend::format", nsrc)
    rep.floor(rid, 12, "child sources")


# ------------------------------------------------------------------------------------------------
# BAL (flag sensitive)
# ------------------------------------------------------------------------------------------------
def bal_rule(ctx, rep, rid="BAL"):
    rep.rule(rid, "BAL: in every function of backend::format the StartIndent signals pushed on the caller's PrintItems (through indent()) and the "
                  "FinishIndent signals (dedent()) cancel on every path to every return, and the running balance never goes negative; the "
                  "analysis is sensitive to boolean latch variables (`indented`), so a dedent guarded by the flag set at the indent is paired "
                  "with it. dprint panics (debug builds) when the level is not zero after printing and (all builds) on a dedent at level zero")
    lib = ctx.lelwel()
    n = 0
    for b in fmt_bodies(lib):
        pr = P(b)
        items_params = [i for i in range(1, b.argc + 1) if "PrintItems" in b.local_ty(i)]
        evs = {}
        for pt, name, decl, args, t in calls(b):
            if name in ("backend::format::indent", "backend::format::dedent"):
                tgt = args[1]
                on_param = any(x[0] == "param" and x[1] in items_params for x in walk(tgt))
                if not on_param:
                    continue  # a local PrintItems (conditional sub-items): not the caller's balance
                w = args[0]
                sym = ("c", w[2]) if w[0] == "const" else ("s", show(w, 80))
                evs[pt] = (1 if name.endswith("::indent") else -1, sym)
        if not evs:
            continue
        n += 1
        # boolean latch locals: user variables of type bool all of whose definitions are constants
        latches = set()
        for l, ds in b.defs().items():
            if b.local_ty(l) == "bool" and b.varname(l) and ds and all(
                    d[2] == "assign" and d[3]["rv"]["r"] == "use" and "k" in d[3]["rv"]["o"] and d[3]["rv"]["o"]["k"].get("v") in (0, 1, True, False) for d in ds):
                latches.add(l)
        init = frozenset([((), tuple(sorted((l, None) for l in latches)))])

        def stmt(state, p, it):
            out = set()
            for cnt, env in state:
                c = dict(cnt)
                e = dict(env)
                if p in evs:
                    d, sym = evs[p]
                    mult = sym[1] if sym[0] == "c" else 1
                    key = "const" if sym[0] == "c" else sym
                    c[key] = c.get(key, 0) + d * mult
                    if c[key] == 0:
                        del c[key]
                if isinstance(it, dict) and "rv" in it and not it["a"]["p"] and it["a"]["l"] in latches:
                    e[it["a"]["l"]] = bool(it["rv"]["o"]["k"]["v"])
                out.add((tuple(sorted(c.items(), key=str)), tuple(sorted(e.items()))))
            return frozenset(out)

        def edge(state, src, tgt, lab):
            tt = b.blocks[src]["t"]
            if tt["t"] != "switch":
                return state
            e = pr.operand(tt["d"])
            if e[0] == "local" and e[1] in latches and [v for v, _ in tt["arms"]] == [0]:
                want = (lab[0] == "else")
                out = set()
                for cnt, env in state:
                    d = dict(env)
                    if d[e[1]] is None or d[e[1]] == want:
                        d[e[1]] = want
                        out.add((cnt, tuple(sorted(d.items()))))
                return frozenset(out) if out else None
            return state

        df = flow.Dataflow(b, init, stmt, edge, lambda x, y: x | y)
        try:
            df.run(max_iter=20000)
            if any(len(s) > 64 for s in df.IN.values()):
                raise RuntimeError("state explosion")
        except RuntimeError:
            rep.violation(rid, "%s|unbounded" % b.name, "%s: the indent balance grows without bound round a loop (an indent or dedent is executed once per "
                          "child without its partner)" % b.name, site(b, sorted(evs)[0]))
            continue
        bad = []
        neg = []
        for bb in b.exits():
            for cnt, env in (df.OUT.get(bb) or ()):
                if cnt:
                    bad.append(cnt)
        for p in evs:
            st = df.at.get(p)
            after = stmt(st, p, None) if st is not None else ()
            for cnt, env in after:
                if any(v < 0 for _, v in cnt):
                    neg.append((p, cnt))
        fn = b.name.split("::")[-1]
        if bad:
            rep.violation(rid, "%s|unbalanced" % b.name, "%s: on some path the indentation opened on the caller's items is not closed (or closed without being "
                          "opened) when the function returns: balances %s. With a syntactically incomplete construct the formatter leaves the "
                          "indentation level non-zero (debug builds of dprint-core panic; following declarations are indented)"
                          % (b.name, sorted(set(bad), key=str)[:4]), site(b, sorted(evs)[0]))
        elif neg:
            rep.violation(rid, "%s|negative" % b.name, "%s: a dedent can execute before the matching indent (balance %s): dprint-core panics on finish_indent at "
                          "level zero in every build" % (b.name, neg[0][1]), site(b, neg[0][0]))
        else:
            rep.ok(rid, "%s: %d indent/dedent sites balance on every path%s" % (fn, len(evs), (" (latch variables: %s)" % ", ".join(b.varname(l) for l in sorted(latches))) if latches else ""))
    rep.count("formatter functions with indent signals on the caller's items", n)
    rep.floor(rid, 3, "functions")


# ------------------------------------------------------------------------------------------------
# RAW
# ------------------------------------------------------------------------------------------------
def raw_rule(ctx, rep, rid="RAW"):
    rep.rule(rid, "TAINT: text handed to PrintItems::push_string must be free of newlines and tabs (dprint-core's documented precondition, asserted in "
                  "debug builds); token text taken from the tree (Cst::span_text) may contain both (block comments, tabs in strings and comments), so it "
                  "must pass ir_helpers::gen_from_raw_string or an equivalent split first")
    lib = ctx.lelwel()
    n = 0
    for b in fmt_bodies(lib):
        for pt, name, decl, args, t in calls(b):
            if name.endswith("PrintItems::push_string"):
                n += 1
                raw = any(x[0] == "call" and x[1].endswith("Cst::span_text") for x in walk(args[1]))
                sliced = any(x[0] == "call" and "Index" in x[1] for x in walk(args[1]))
                if raw:
                    # which token kinds reach this site is decided by the enclosing match arm; key by function and slice shape
                    key = "%s|push_string|span_text%s" % (b.name, "[..len-1]" if sliced else "")
                    rep.violation(rid, key, "%s pushes raw token text (%s) with push_string: a block comment spanning lines or a tab inside a comment or "
                                  "string literal violates dprint-core's precondition (panic in debug builds)" % (b.name, show(args[1], 100)), site(b, pt))
                else:
                    rep.ok(rid, "%s: push_string(%s)" % (b.name.split("::")[-1], show(args[1], 60)))
    rep.count("push_string sites", n)
    rep.floor(rid, 4, "push_string sites")


# ------------------------------------------------------------------------------------------------
# LEXFACT: token definitions the audited reasons rely on (read from the logos attributes of enum Token)
# ------------------------------------------------------------------------------------------------
LEXFACTS = [
    ("LineComment", "suffix", "\\n", "formatter strips the last byte of a line comment (gen_node, gen_file): it must be the mandatory newline"),
    ("DocComment", "suffix", "\\n", "formatter strips the last byte of a doc comment: it must be the mandatory newline"),
    ("DocComment", "prefix", "///", "hover strips the `///` prefix of doc comments and unwraps"),
    ("LineComment", "prefix", "//", "a line comment is non-empty"),
    ("Predicate", "prefix", "\\?", "[1..] on predicate text: first character is the one-byte '?'"),
    ("Action", "prefix", "#", "[1..] on action text"),
    ("Assertion", "prefix", "!", "[1..] on assertion text"),
    ("NodeRename", "prefix", "@", "[1..] on rename text"),
    ("NodeMarker", "prefix", "<", "NodeMarker::number splits at '<' and unwraps"),
]


def token_patterns():
    p = os.path.join(extract.REPO, "src", "frontend", "lexer.rs")
    try:
        src = open(p, encoding="utf-8").read()
    except OSError:
        raise MissingAnchor("cannot read %s" % p)
    m = re.search(r"pub enum Token \{(.*?)\n\}", src, re.S)
    if not m:
        raise MissingAnchor("enum Token not found in lexer.rs")
    body = m.group(1)
    pats = {}
    pending = []
    for line in body.splitlines():
        line = line.strip()
        a = re.match(r'#\[(regex|token)\((r?)"((?:[^"\\]|\\.)*)"', line)
        if a:
            pending.append((a.group(1), a.group(2) == "r", a.group(3)))
            continue
        v = re.match(r"([A-Za-z_][A-Za-z0-9_]*)\s*,?$", line)
        if v:
            if pending:
                pats[v.group(1)] = pending
            pending = []
    return pats


def lexfact_rule(ctx, rep, rid="LEXFACT"):
    rep.rule(rid, "TABLE AGREEMENT: the audited panic-table reasons and the formatter rely on facts about token definitions (a line comment ends with a "
                  "mandatory newline; predicate/action/assertion/rename/marker text starts with a fixed one-byte character); each fact is re-read from "
                  "the logos attribute of that Token variant (a literal prefix/suffix of the pattern, not the whole pattern)")
    pats = token_patterns()
    for var, kind, lit, why in LEXFACTS:
        ps = pats.get(var)
        if not ps:
            rep.violation(rid, "%s|missing" % var, "Token::%s has no #[regex]/#[token] attribute any more; %s" % (var, why))
            continue
        ok = True
        for k, raw, pat in ps:
            if not raw:
                pat = pat.replace("\\\\", "\\")
            if kind == "prefix":
                good = pat.startswith(lit)
                # the prefix must be mandatory: not followed by a quantifier that makes it optional
                rest = pat[len(lit):]
                good = good and not rest.startswith(("?", "*"))
            else:
                good = pat.endswith(lit)
            ok = ok and good
        if ok:
            rep.ok(rid, "Token::%s pattern has the mandatory %s %r (%s)" % (var, kind, lit, why[:60]))
        else:
            rep.violation(rid, "%s|%s" % (var, kind), "Token::%s: its pattern(s) %s no longer have the mandatory %s %r; %s"
                          % (var, [p for _, _, p in ps], kind, lit, why))


# ------------------------------------------------------------------------------------------------
# KINDS: node kinds with an unreachable!() formatter arm are never closed by the self-hosted parser
# ------------------------------------------------------------------------------------------------
def closed_kinds(inst):
    """rule kinds that can reach a close/close_root call in the instance's rule functions (reaching constants of the kind operand)"""
    kinds = set()
    unknown = []
    rule_adt = [a for a in inst.unit.adts if a.endswith(inst.prefix + "::Rule")]
    names = {v["d"]: v["n"] for v in inst.unit.adts[rule_adt[0]]["variants"]} if rule_adt else {}
    for rname, b in inst.all_rule_bodies():
        pr = P(b)
        # reaching constant definitions per Rule-typed user local
        locs = [l for l in range(len(b.locals)) if b.local_ty(l).endswith("::Rule") and len(b.defs().get(l, [])) > 1]

        def const_of(rv):
            if rv["r"] == "use" and "k" in rv["o"]:
                return rv["o"]["k"].get("v")
            if rv["r"] == "agg" and rv.get("k") == "adt":
                return rv.get("v")
            return None
        def stmt(state, p, it):
            if isinstance(it, dict) and "rv" in it and not it["a"]["p"] and it["a"]["l"] in locs:
                e = pr.rvalue(it["rv"])
                val = e[1][2] if (e[0] == "agg" and e[1][0] == "adt") else ("?" + show(e, 40))
                return frozenset([(l, v) for l, v in state if l != it["a"]["l"]] + [(it["a"]["l"], val)])
            return state
        df = flow.Dataflow(b, frozenset(), stmt, None, lambda x, y: x | y).run()
        for pt, name, decl, args, t in calls(b):
            if name.endswith("Parser::close") or name.endswith("Parser::close_root"):
                k = args[2] if name.endswith("Parser::close") else (args[2] if len(args) > 2 else None)
                if k is None:
                    continue
                if k[0] == "agg" and k[1][0] == "adt":
                    kinds.add(k[1][2])
                elif k[0] == "local":
                    vals = {v for l, v in (df.at.get(pt) or ()) if l == k[1]}
                    for v in vals:
                        if v.startswith("?"):
                            unknown.append((b.name, v))
                        else:
                            kinds.add(v)
                    if not vals:
                        unknown.append((b.name, "no reaching definition"))
                else:
                    unknown.append((b.name, show(k, 60)))
    return kinds, unknown


def kinds_rule(ctx, rep, rid="KINDS"):
    rep.rule(rid, "TABLE AGREEMENT: gen_node's arms for Rule::Decl, Rule::Postfix and Rule::Regex are unreachable!(); the kinds that can reach a close "
                  "call in the self-hosted parser (reaching constants of the kind operand of every close in frontend::parser) do not include a kind "
                  "whose formatter arm panics")
    lib = ctx.lelwel()
    inst = [i for i in ctx.instances(with_corpus=False) if i.unit is lib and i.prefix == "frontend::parser"]
    if not inst:
        raise MissingAnchor("self-hosted parser instance not found")
    kinds, unknown = closed_kinds(inst[0])
    gn = [b for b in fmt_bodies(lib) if b.name == "backend::format::gen_node"][0]
    pr = P(gn)
    rule_names = _enum(lib, "frontend::parser::Rule")
    # arms of the switch on the Rule discriminant that lead to a panic
    panicking = set()
    for bb in sorted(gn.reachable()):
        t = gn.blocks[bb]["t"]
        if t["t"] == "switch":
            e = pr.operand(t["d"])
            if e[0] == "discr" and e[2].endswith("parser::Rule"):
                for v, tg in t["arms"]:
                    tt = gn.blocks[tg]["t"]
                    if tt["t"] == "call" and "panicking" in (tt["f"].get("k", {}).get("fn", "")):
                        panicking.add(rule_names.get(v))
    if unknown:
        rep.violation(rid, "unknown-kind", "frontend::parser: the kind operand of a close call is not a constant the rule can follow: %s" % unknown[:3])
    for k in sorted(panicking):
        if k in kinds:
            rep.violation(rid, "closed|%s" % k, "the self-hosted parser can close a node of kind Rule::%s, whose arm in backend::format::gen_node is unreachable!(): "
                          "formatting a file containing such a node panics" % k)
        else:
            rep.ok(rid, "Rule::%s is never closed by frontend::parser (formatter arm unreachable!())" % k)
    if not panicking:
        rep.ok(rid, "gen_node has no panicking arm", nontrivial=False)
    rep.count("kinds closed by the self-hosted parser", len(kinds))
    if len(kinds) < 20:
        rep.violation(rid, "floor:KINDS", "only %d node kinds were found to be closed by the self-hosted parser (28 on the audited tree): anchor lost" % len(kinds))
