"""debug helper: python3 -m rules.dump <factsdir> <crate> <fn-suffix>"""
import sys, json
from .facts import load_units, callee_of
from .prov import Prov, show

def pl(p):
    s = "_%d" % p["l"]
    for pr in p["p"]:
        if pr == "*": s = "(*%s)" % s
        elif isinstance(pr, str): s += "." + pr
        elif "f" in pr: s += "." + pr["n"]
        elif "dc" in pr: s = "(%s as %s)" % (s, pr["dc"])
        elif "i" in pr: s += "[_%d]" % pr["i"]
        else: s += "[..]"
    return s

def main():
    d, crate, suffix = sys.argv[1:4]
    for u in load_units(d, lambda h: h["crate"] == crate):
        for b in u.find(suffix):
            P = Prov(b)
            print("==", u.file.split("/")[-1], b.name, b.id, "ret", b.ret_ty(), "file", b.file)
            for i, l in enumerate(b.locals):
                print("   _%d: %s %s" % (i, l["ty"], b.varname(i) or ""))
            for bi in range(b.nblocks):
                if bi not in b.reachable(): continue
                blk = b.blocks[bi]
                print(" bb%d:" % bi)
                for s in blk["s"]:
                    if "rv" in s:
                        print("    %s = %s" % (pl(s["a"]), show(P.rvalue(s["rv"]))), s["sp"].get("x", ""))
                    else:
                        print("    setdiscr %s = %s" % (pl(s["sd"]), s["v"]))
                t = blk["t"]
                if t["t"] == "call":
                    print("    %s = CALL %s -> bb%s" % (pl(t["dest"]), show(P.call_expr(t)), t["to"]), t["sp"].get("x", ""))
                elif t["t"] == "switch":
                    print("    SWITCH %s %s else bb%d" % (show(P.operand(t["d"])), t["arms"], t["else"]))
                elif t["t"] == "assert":
                    print("    ASSERT %s == %s (%s) -> bb%d" % (show(P.operand(t["cond"])), t["exp"], t["msg"], t["to"]))
                else:
                    print("    %s %s" % (t["t"].upper(), t.get("to", "")))
main()
