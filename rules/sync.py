"""L-SYNC (C13): the checked-in self-hosted parser src/frontend/generated.rs is what the current generator emits for
src/frontend/lelwel.llw.  Both are type-checked in the same run (the corpus harness regenerates the parser from the
grammar with /repo's own lelwel); their MIR bodies are compared after normalising what legitimately differs: module
paths, source positions, and the numbering of the Token enum (the hand-written lexer orders its variants differently
from the lexer skeleton), which is mapped through variant names."""
import json, re
from .facts import MissingAnchor


def _tok_map(unit, adt):
    a = unit.adts.get(adt)
    if not a:
        raise MissingAnchor("no enum table for %s" % adt)
    return {v["d"]: v["n"] for v in a["variants"]}


class Canon:
    def __init__(self, inst):
        self.inst = inst
        self.unit = inst.unit
        self.tok_adt = inst.token_adt()
        self.tok = _tok_map(inst.unit, self.tok_adt)
        pre = inst.prefix
        crate = inst.unit.crate
        # textual prefixes of this instance, longest first
        self.subs = []
        lex = self.tok_adt.rsplit("::", 1)[0]            # crate::..::lexer
        lex_rel = lex.split("::", 1)[1] if "::" in lex else lex
        for a, b in ((crate + "::" + pre, "@P"), (pre, "@P"), (lex, "@L"), (lex_rel, "@L")):
            if a:
                self.subs.append((a, b))
        self.subs.sort(key=lambda x: -len(x[0]))

    def s(self, text):
        if not isinstance(text, str):
            return text
        for a, b in self.subs:
            text = text.replace(a, b)
        text = re.sub(r"\{impl#\d+\}", "{impl}", text)
        text = re.sub(r"DefId\(\d+:\d+ ~ \w+\[[0-9a-f]+\]::", "DefId(", text)
        text = re.sub(r"\{closure@[^}]*\}", "{closure}", text)
        return text

    def norm(self, x, tok_ctx=False):
        if isinstance(x, dict):
            out = {}
            is_tok_discr = x.get("r") == "discr" and x.get("adt") == self.tok_adt
            for k, v in x.items():
                if k in ("sp", "span", "line", "cl"):
                    continue
                out[k] = self.norm(v)
            # constants of the Token type: map the value through the variant name
            if "ty" in x and isinstance(x.get("ty"), str) and x["ty"].endswith("lexer::Token") and "v" in x:
                out["v"] = self.tok.get(x["v"], x["v"])
            return out
        if isinstance(x, list):
            return [self.norm(i) for i in x]
        if isinstance(x, str):
            return self.s(x)
        return x

    def body(self, b):
        from .skel import P
        pr = P(b)
        blocks = []
        for bi, blk in enumerate(b.blocks):
            t = dict(blk["t"])
            if t["t"] == "switch":
                d = pr.operand(t["d"])
                if d[0] == "discr" and d[2] == self.tok_adt:
                    t = dict(t, arms=sorted([[self.tok.get(v, v), tg] for v, tg in t["arms"]], key=lambda a: str(a[0])))
            blocks.append({"s": self.norm(blk["s"]), "t": self.norm(t)})
        locs = [self.s(l["ty"]) for l in b.locals]
        return {"argc": b.argc, "locals": locs, "blocks": blocks}


def first_difference(a, b, path="$"):
    if type(a) != type(b):
        return path, a, b
    if isinstance(a, dict):
        for k in sorted(set(a) | set(b)):
            if k not in a or k not in b:
                return path + "." + k, a.get(k), b.get(k)
            r = first_difference(a[k], b[k], path + "." + k)
            if r:
                return r
        return None
    if isinstance(a, list):
        if len(a) != len(b):
            return path + ".len", len(a), len(b)
        for i, (x, y) in enumerate(zip(a, b)):
            r = first_difference(x, y, "%s[%d]" % (path, i))
            if r:
                return r
        return None
    return None if a == b else (path, a, b)


def sync_rule(ctx, rep, rid="SYNC"):
    rep.rule(rid, "TRANSLATION AGREEMENT: every function of the checked-in self-hosted parser (src/frontend/generated.rs: the skeleton and the "
                  "14 rule functions) has, after normalising module paths, positions and Token numbering, the same MIR as the parser the "
                  "current tree's generator emits for src/frontend/lelwel.llw; a grammar edit without regeneration, a hand edit of "
                  "generated.rs, or a generator/skeleton change that was not propagated is reported with the function that differs")
    insts = ctx.instances(with_corpus=True)
    A = [i for i in insts if i.unit.crate == "lelwel" and i.prefix == "frontend::parser"]
    B = [i for i in insts if i.grammar == "g_selfhost"]
    if not A or not B:
        raise MissingAnchor("self-hosted parser instance or its regenerated twin (corpus selfhost) not found")
    A, B = A[0], B[0]
    ca, cb = Canon(A), Canon(B)

    def table(inst, cn):
        out = {}
        for n, b in inst.fns.items():
            out[cn.s(n)] = b
        for n, b in inst.rules.items():
            out["Parser::" + n] = b
        for n, bs in inst.nested.items():
            for b in bs:
                out["Parser::" + n + b.name.split(n, 1)[1]] = b
        return out

    ta, tb = table(A, ca), table(B, cb)
    only_a = sorted(set(ta) - set(tb))
    only_b = sorted(set(tb) - set(ta))
    for n in only_a:
        rep.violation(rid, "only-checked-in|" + n, "src/frontend/generated.rs has function %s that the generator does not emit for lelwel.llw any more" % n)
    for n in only_b:
        rep.violation(rid, "only-regenerated|" + n, "the generator emits function %s for lelwel.llw, but the checked-in src/frontend/generated.rs lacks it "
                      "(grammar or generator changed without regenerating)" % n)
    n = 0
    for name in sorted(set(ta) & set(tb)):
        a = ca.body(ta[name])
        b = cb.body(tb[name])
        d = first_difference(a, b)
        n += 1
        if d is None:
            rep.ok(rid, "%s identical (%d blocks)" % (name, len(a["blocks"])))
        else:
            rep.violation(rid, "differs|" + name, "%s: the checked-in self-hosted parser differs from what the current generator emits for lelwel.llw at %s: "
                          "checked-in %s, regenerated %s" % (name, d[0], json.dumps(d[1])[:160], json.dumps(d[2])[:160]),
                          "%s:%d" % (ta[name].file, ta[name].line))
    rep.count("functions compared", n)
    rep.floor(rid, 60, "functions")
