"""Provenance expressions: where does the value of an operand come from.

Single-assignment MIR temporaries (all temporaries at -Zmir-opt-level=0) are followed through
their defining rvalue / call; user variables with several definitions stop the walk.
References and dereferences are transparent (there is no unsafe code; a place reached through
`&mut self` is the same storage).  Places are identified *by type*: field `pos` of ADT
`..::parser::Parser`, wherever the base came from.
"""
from .facts import clean

MAXDEPTH = 24


def _short(adt):
    return adt.rsplit("::", 1)[-1]


class Prov:
    def __init__(self, body):
        self.b = body
        self.defs = body.defs()
        self.memo = {}

    # -- places / operands ---------------------------------------------------------------
    def local(self, l, depth=0, seen=frozenset()):
        key = l
        if key in self.memo and not seen:
            return self.memo[key]
        r = self._local(l, depth, seen)
        if not seen:
            self.memo[key] = r
        return r

    def _local(self, l, depth, seen):
        b = self.b
        ds = [d for d in self.defs.get(l, []) if d[2] != "partial"]
        partial = [d for d in self.defs.get(l, []) if d[2] == "partial"]
        if 1 <= l <= b.argc and not ds:
            return ("param", l, b.varname(l) or str(l))
        if len(ds) != 1 or depth > MAXDEPTH or l in seen:
            if not ds and partial:
                # aggregate built field by field (e.g. tuple temporaries): keep as local
                return ("local", l, b.varname(l) or "_%d" % l)
            return ("local", l, b.varname(l) or "_%d" % l)
        bi, si, kind, payload = ds[0]
        seen = seen | {l}
        if kind == "call":
            return self.call_expr(payload, depth + 1, seen)
        return self.rvalue(payload["rv"], depth + 1, seen)

    def call_expr(self, t, depth=0, seen=frozenset()):
        k = t["f"].get("k")
        if k and "fn" in k:
            name = clean(k["res"]) if k.get("res") else clean(k["fn"])
            decl = clean(k["fn"])
        else:
            name = decl = "<indirect>"
        args = tuple(self.operand(a, depth + 1, seen) for a in t["args"])
        return ("call", name, args, decl, t.get("sp", {}).get("l", ""))

    def place(self, p, depth=0, seen=frozenset()):
        e = self.local(p["l"], depth, seen)
        for pr in p["p"]:
            if pr == "*":
                continue
            if isinstance(pr, str):
                continue
            if "f" in pr:
                # checked arithmetic: (AddWithOverflow(a,b)).0 -> Add(a,b)
                if e[0] == "bin" and e[1].endswith("WithOverflow"):
                    if pr["f"] == 0:
                        e = ("bin", e[1][: -len("WithOverflow")], e[2], e[3])
                    else:
                        e = ("ovf", e)
                    continue
                if e[0] == "agg" and e[1][0] in ("tuple", "adt") and pr["f"] < len(e[2]) and not pr.get("v"):
                    # projection out of a freshly built aggregate
                    e = e[2][pr["f"]]
                    continue
                if pr["adt"]:
                    e = ("field", e, pr["adt"], pr["n"], pr.get("v") or "")
                else:
                    e = ("tfield", e, pr["f"])
            elif "dc" in pr:
                e = ("variant", e, pr["adt"], pr["dc"])
            elif "i" in pr:
                e = ("index", e, self.local(pr["i"], depth + 1, seen))
            elif "ci" in pr:
                e = ("index", e, ("const", "usize", pr["ci"]))
            elif "sub" in pr:
                e = ("subslice", e)
        return e

    def operand(self, o, depth=0, seen=frozenset()):
        if "c" in o:
            return self.place(o["c"], depth, seen)
        if "m" in o:
            return self.place(o["m"], depth, seen)
        k = o["k"]
        if "fn" in k:
            return ("fn", clean(k["res"]) if k.get("res") else clean(k["fn"]))
        if "closure" in k:
            return ("closure", k["closure"])
        if "str" in k:
            return ("const", "str", k["str"])
        return ("const", k["ty"], k.get("v"))

    def rvalue(self, rv, depth=0, seen=frozenset()):
        r = rv["r"]
        if r == "use":
            return self.operand(rv["o"], depth, seen)
        if r == "ref" or r == "rawptr":
            return self.place(rv["p"], depth, seen)
        if r == "bin":
            return ("bin", rv["op"], self.operand(rv["a"], depth, seen), self.operand(rv["b"], depth, seen))
        if r == "un":
            return ("un", rv["op"], self.operand(rv["o"], depth, seen))
        if r == "cast":
            return ("cast", rv["k"], self.operand(rv["o"], depth, seen))
        if r == "discr":
            return ("discr", self.place(rv["p"], depth, seen), rv.get("adt", ""))
        if r == "agg":
            k = rv["k"]
            if k == "adt":
                kd = ("adt", rv["adt"], rv["v"])
            elif k == "closure":
                kd = ("closure", rv["closure"])
            else:
                kd = (k,)
            return ("agg", kd, tuple(self.operand(o, depth, seen) for o in rv["ops"]))
        if r == "repeat":
            return ("repeat", self.operand(rv["o"], depth, seen))
        return ("unknown", r)


def show(e, maxlen=400):
    s = _show(e)
    return s if len(s) <= maxlen else s[: maxlen - 3] + "..."


def _show(e):
    t = e[0]
    if t == "param":
        return e[2]
    if t == "local":
        return e[2]
    if t == "const":
        return "%r" % (e[2],) if e[2] is not None else "const:" + e[1]
    if t == "fn":
        return "fn " + e[1]
    if t == "closure":
        return "closure " + e[1]
    if t == "field":
        base = _show(e[1])
        return "%s.%s" % (base, e[3]) if base not in ("self",) else "%s.%s" % (_short(e[2]), e[3])
    if t == "tfield":
        return "%s.%d" % (_show(e[1]), e[2])
    if t == "variant":
        return "%s as %s" % (_show(e[1]), e[3])
    if t == "index":
        return "%s[%s]" % (_show(e[1]), _show(e[2]))
    if t == "subslice":
        return "%s[..]" % _show(e[1])
    if t == "call":
        return "%s(%s)" % (e[1], ", ".join(_show(a) for a in e[2]))
    if t == "bin":
        return "%s(%s, %s)" % (e[1], _show(e[2]), _show(e[3]))
    if t == "un":
        return "%s(%s)" % (e[1], _show(e[2]))
    if t == "cast":
        return "cast(%s)" % _show(e[2])
    if t == "discr":
        return "discr(%s)" % _show(e[1])
    if t == "agg":
        k = e[1]
        n = k[0] if k[0] != "adt" else "%s::%s" % (_short(k[1]), k[2])
        if k[0] == "closure":
            n = "closure " + k[1]
        return "%s{%s}" % (n, ", ".join(_show(a) for a in e[2]))
    if t == "ovf":
        return "overflow(%s)" % _show(e[1])
    if t == "repeat":
        return "[%s; n]" % _show(e[1])
    return "?" + str(e[1:] if len(e) > 1 else "")


def walk(e):
    """all sub-expressions, pre-order"""
    yield e
    t = e[0]
    if t in ("field", "tfield", "variant", "subslice", "discr", "ovf", "repeat"):
        yield from walk(e[1])
    elif t == "index":
        yield from walk(e[1])
        yield from walk(e[2])
    elif t in ("call", "agg"):
        for a in e[2]:
            yield from walk(a)
    elif t == "bin":
        yield from walk(e[2])
        yield from walk(e[3])
    elif t in ("un", "cast"):
        yield from walk(e[2])


def is_field(e, adt_suffix, name):
    return e[0] == "field" and e[3] == name and (e[2] == adt_suffix or e[2].endswith("::" + adt_suffix))


def mentions_field(e, adt_suffix, name):
    return any(is_field(x, adt_suffix, name) for x in walk(e))


def field_path(e):
    """[(adt, field), ...] outermost first for a pure chain of field projections, plus the root expr"""
    chain = []
    while e[0] in ("field", "variant"):
        if e[0] == "field":
            chain.append((e[2], e[3]))
        e = e[1]
    chain.reverse()
    return chain, e


def calls_in(e):
    return [x for x in walk(e) if x[0] == "call"]
