"""Builds the corpus harness with the mirfacts driver; isolates grammars whose emitted parser does not type-check."""
import os, re, json, shutil, subprocess, sys
from . import extract

HARNESS_TEMPLATE = os.path.join(extract.CORPUS, "harness")
GRAMMARS = os.path.join(extract.CORPUS, "grammars")


def _harness_copy():
    """the harness crate path-depends on the repository under analysis: materialise a copy under the cache directory with
    the dependency pointing at extract.REPO (the committed template names /repo) and /repo's own Cargo.lock"""
    dst = os.path.join(extract.CACHE, "harness")
    os.makedirs(os.path.join(dst, "src"), exist_ok=True)
    toml = open(os.path.join(HARNESS_TEMPLATE, "Cargo.toml")).read().replace('path = "/repo"', 'path = "%s"' % extract.REPO)
    for rel, text in (("Cargo.toml", toml), ("build.rs", open(os.path.join(HARNESS_TEMPLATE, "build.rs")).read()),
                      ("src/lib.rs", open(os.path.join(HARNESS_TEMPLATE, "src", "lib.rs")).read())):
        p = os.path.join(dst, rel)
        if not os.path.exists(p) or open(p).read() != text:
            open(p, "w").write(text)
    shutil.copyfile(os.path.join(extract.REPO, "Cargo.lock"), os.path.join(dst, "Cargo.lock"))
    return dst


def build(facts_dir, tier="quick", grammars_dir=None, extra=None):
    """returns report dict: grammars -> status, typecheck failures with first error"""
    gdir = grammars_dir or GRAMMARS
    HARNESS = _harness_copy()
    skip = []
    tc_fail = {}
    rep_path = os.path.join(facts_dir, "build_report.json")
    extra = dict(extra or {})
    extra.setdefault("selfhost", os.path.join(extract.REPO, "src", "frontend", "lelwel.llw"))
    for attempt in range(12):
        for f in os.listdir(facts_dir):
            if f.endswith(".jsonl"):
                os.remove(os.path.join(facts_dir, f))
        env = extract._cargo_env(facts_dir, HARNESS)
        env["CORPUS_GRAMMARS"] = gdir
        env["CORPUS_SKIP"] = ",".join(sorted(skip))
        env["CORPUS_REPORT"] = rep_path
        env["CORPUS_EXTRA"] = ",".join("%s=%s" % kv for kv in sorted(extra.items()))
        extract._drop_fingerprints(env["CARGO_TARGET_DIR"], {"corpus-harness"})
        r = subprocess.run(["cargo", "+nightly", "check", "--offline"], cwd=HARNESS, env=env, capture_output=True, text=True)
        if r.returncode == 0:
            break
        # which grammars failed to type-check?
        bad = {}
        cur = None
        for line in r.stderr.splitlines():
            m = re.match(r"^error(\[E\d+\])?: (.*)", line)
            if m:
                cur = m.group(0)
            m = re.search(r"-->\s+\S*/out/([A-Za-z0-9_]+)/(generated|parser|lexer)\.rs:(\d+)", line)
            if m and cur:
                bad.setdefault(m.group(1), cur + " (" + m.group(2) + ".rs:" + m.group(3) + ")")
                cur = None
        new = [b for b in bad if b not in skip]
        if not new:
            sys.stdout.write(r.stderr[-5000:])
            extract.fail("the corpus harness does not build and no grammar could be blamed")
        for b in new:
            tc_fail[b] = bad[b]
            skip.append(b)
    else:
        extract.fail("corpus harness: too many isolation rounds")
    rep = {"grammars": json.load(open(rep_path)), "typecheck_failures": tc_fail, "grammar_dir": gdir}
    if not [f for f in os.listdir(facts_dir) if f.startswith("corpus_harness-")]:
        extract.fail("no fact file for the corpus harness")
    return rep
