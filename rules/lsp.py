"""C20 protocol rules on ide::Cache / ide::analyze / the handlers of lelwel-ls:
RR    one request, one reply on every path (both sides of the channel pair);
PAIR  the Request variant a Cache method sends and the Notification variant it waits for are the pair the analysis thread
      produces for that request;
ORDER a didOpen/didChange handler invalidates, re-analyses the text it was given (the *last* content change) and then
      fetches diagnostics, in that order."""
import re
from .facts import MissingAnchor, clean
from .skel import P, calls, site, fn_tail
from .prov import show, walk
from . import flow, lrules


def _variant_of(e, adt_tail):
    """variant name if e is an aggregate construction of enum `adt_tail`"""
    for x in walk(e):
        if x[0] == "agg" and x[1][0] == "adt" and x[1][1].endswith(adt_tail):
            return x[1][2]
    return None


def _counts_on_paths(body, start_block, stop_blocks, is_event, limit=4):
    """set of event counts over all paths from the entry of start_block to (the entry of) a stop block or a return;
    returns dict: 'stop' -> set(counts), 'return' -> set(counts).  Counts are capped at `limit`."""
    res = {"stop": set(), "return": set()}
    seen = set()
    st = [(start_block, 0)]
    while st:
        b, c = st.pop()
        if (b, c) in seen:
            continue
        seen.add((b, c))
        for pt, it in flow.points(body, b):
            if is_event(pt, it):
                c = min(limit, c + 1)
        t = body.blocks[b]["t"]
        if t["t"] == "return":
            res["return"].add(c)
            continue
        for s in body.succ(b):
            if s in stop_blocks:
                res["stop"].add(c)
            else:
                st.append((s, c))
    return res


def _is_call(it, rx):
    if not (isinstance(it, dict) and it.get("t") == "call"):
        return False
    k = it["f"].get("k") or {}
    n = clean(k.get("res") or k.get("fn") or "")
    return bool(rx.search(n))


SEND = re.compile(r"mpsc::Sender<.*>::send$|mpsc::Sender::send$")
RECV = re.compile(r"mpsc::Receiver<.*>::recv$|mpsc::Receiver::recv$")


def rr_pair(ctx, rep):
    rep.rule("RR", "BAL: every Cache request method sends exactly one Request and then receives exactly once on every path that sends at all; "
                   "in the analysis thread every arm of the request dispatch sends exactly one Notification before waiting for the next request, "
                   "except Cancel, which returns without sending (the reply channel is matched by order only, so one extra or missing reply "
                   "shifts every later answer)")
    rep.rule("PAIR", "TAB: for each Cache request method the Notification variant it accepts equals the variant the analysis thread sends in the "
                     "arm for the Request variant that method sends")
    lib = ctx.lelwel()
    an = [b for b in lib.find("ide::analyze") if b.name == "ide::analyze"]
    if len(an) != 1:
        raise MissingAnchor("ide::analyze not found")
    an = an[0]
    pr = P(an)
    req_adt = [a for a in lib.adts if a.endswith("ide::Request")]
    noti_adt = [a for a in lib.adts if a.endswith("ide::Notification")]
    if not req_adt or not noti_adt:
        raise MissingAnchor("enum tables for ide::Request / ide::Notification not found")
    req_names = {v["d"]: v["n"] for v in lib.adts[req_adt[0]]["variants"]}
    noti_names = {v["d"]: v["n"] for v in lib.adts[noti_adt[0]]["variants"]}
    # the dispatch: a switch on the discriminant of the received Request, inside the loop that receives
    disp = None
    for b in sorted(an.reachable()):
        t = an.blocks[b]["t"]
        if t["t"] == "switch":
            e = pr.operand(t["d"])
            if e[0] == "discr" and "Receiver::recv" in show(e, 300) and e[2].endswith("ide::Request"):
                disp = b
    if disp is None:
        raise MissingAnchor("ide::analyze: dispatch on the received Request not found")
    loops = [lp for lp in an.loops() if disp in lp["body"]]
    if not loops:
        raise MissingAnchor("ide::analyze: the request dispatch is not inside a loop")
    lp = min(loops, key=lambda l: len(l["body"]))
    header = lp["header"]
    produced = {}
    t = an.blocks[disp]["t"]
    is_send = lambda pt, it: _is_call(it, SEND)
    for v, tgt in t["arms"]:
        name = req_names.get(v, "#%s" % v)
        r = _counts_on_paths(an, tgt, {header}, is_send)
        # which notification variants are sent in this arm
        sent = set()
        seen = set()
        stack = [tgt]
        while stack:
            b = stack.pop()
            if b in seen or b == header:
                continue
            seen.add(b)
            bt = an.blocks[b]["t"]
            if _is_call(bt, SEND):
                vv = _variant_of(pr.operand(bt["args"][1]), "ide::Notification")
                sent.add(vv or "?")
            stack.extend(an.succ(b))
        produced[name] = sent
        if name == "Cancel":
            if r["stop"] or r["return"] - {0} or not r["return"]:
                rep.violation("RR", "analyze|Cancel", "ide::analyze: the Cancel arm must return without replying (replies per path back to the loop: %s, "
                              "at return: %s)" % (sorted(r["stop"]), sorted(r["return"])), site(an, (tgt, 0)))
            else:
                rep.ok("RR", "analyze: Cancel returns without a reply")
            continue
        if r["stop"] == {1} and not r["return"]:
            rep.ok("RR", "analyze: Request::%s -> exactly one reply (%s) on every path" % (name, ",".join(sorted(sent))))
        else:
            rep.violation("RR", "analyze|%s|replies" % name, "ide::analyze: the arm for Request::%s sends %s replies on some path back to the receive loop%s; "
                          "the Cache matches replies by order, so every later answer for this document is shifted or missing"
                          % (name, sorted(r["stop"]), (" and can return (%s)" % sorted(r["return"])) if r["return"] else ""), site(an, (tgt, 0)))
    if set(req_names.values()) - set(produced):
        rep.violation("RR", "analyze|unhandled", "ide::analyze: Request variants without an arm: %s" % sorted(set(req_names.values()) - set(produced)))
    # Cache methods
    n = 0
    for b in lrules.user_bodies(lib):
        if not b.name.startswith("ide::Cache::") or "{closure" in b.name:
            continue
        bp = P(b)
        sends = [(pt, _variant_of(bp.operand(it["args"][1]), "ide::Request")) for pt, it in flow.all_points(b) if _is_call(it, SEND)]
        if not sends:
            continue
        n += 1
        meth = b.name.split("::")[-1]
        is_recv = lambda pt, it: _is_call(it, RECV)
        r_send = _counts_on_paths(b, 0, set(), is_send)
        if r_send["return"] - {0, 1}:
            rep.violation("RR", "Cache::%s|sends" % meth, "ide::Cache::%s can send %s requests on one path" % (meth, sorted(r_send["return"])), site(b, sends[0][0]))
        for pt, v in sends:
            if v == "Cancel":
                rep.ok("RR", "Cache::%s sends Cancel (no reply expected)" % meth)
                continue
            # from the block after the send: exactly one recv on every path to return
            nxt = b.succ(pt[0])
            r = _counts_on_paths(b, nxt[0], set(), is_recv) if nxt else {"return": set()}
            if r["return"] == {1}:
                rep.ok("RR", "Cache::%s: send(Request::%s) then exactly one recv on every path" % (meth, v))
            else:
                rep.violation("RR", "Cache::%s|recv" % meth, "ide::Cache::%s: after send(Request::%s) the number of recv calls per path is %s, not exactly one"
                              % (meth, v, sorted(r["return"])), site(b, pt))
            # awaited variant
            awaited = set()
            for bb in sorted(b.reachable()):
                tt = b.blocks[bb]["t"]
                if tt["t"] == "switch":
                    e = bp.operand(tt["d"])
                    if e[0] == "discr" and e[2].endswith("ide::Notification"):
                        for vv, tg in tt["arms"]:
                            if tg != tt["else"]:
                                awaited.add(noti_names.get(vv, "#%s" % vv))
            want = produced.get(v, set())
            if awaited and awaited == want and len(want) == 1:
                rep.ok("PAIR", "Cache::%s: Request::%s <-> Notification::%s" % (meth, v, ",".join(sorted(want))))
            else:
                rep.violation("PAIR", "Cache::%s|%s" % (meth, v), "ide::Cache::%s sends Request::%s and accepts Notification::{%s}, but the analysis thread answers "
                              "that request with {%s}: the answer is discarded and the default is returned" % (meth, v, ",".join(sorted(awaited)), ",".join(sorted(want))), site(b, pt))
    rep.count("Cache request methods", n)
    rep.floor("RR", 12, "request/reply obligations")
    rep.floor("PAIR", 6, "request/reply pairs")


def order_rule(ctx, rep, rid="ORDER"):
    rep.rule(rid, "DOM+PROV: in the didOpen and didChange handlers Cache::invalidate precedes Cache::analyze precedes Cache::get_diagnostics "
                  "(each dominates the next), the text handed to analyze derives from the notification's parameters, and for didChange from the "
                  "LAST element of content_changes (with full-document sync the last change event carries the latest text); didClose invalidates")
    units = {u.crate: u for u in lrules.lelwel_units(ctx)}
    u = units.get("lelwel_ls")
    if u is None:
        raise MissingAnchor("no fact unit for lelwel-ls")
    found = 0
    for b in lrules.user_bodies(u):
        m = re.search(r"<lsp_types::notification::(Did\w+TextDocument) as NotificationHandler>::handle$", b.name)
        if not m:
            continue
        kind = m.group(1)
        found += 1
        cs = {}
        for pt, name, decl, args, t in calls(b):
            for tail in ("Cache::invalidate", "Cache::analyze", "Cache::get_diagnostics"):
                if name.endswith(tail):
                    cs.setdefault(tail, []).append((pt, args))
        if kind == "DidCloseTextDocument":
            if cs.get("Cache::invalidate"):
                rep.ok(rid, "didClose invalidates the document")
            else:
                rep.violation(rid, "didClose|invalidate", "the didClose handler no longer invalidates the document's analyzer", site(b, (0, 0)))
            continue
        seq = ["Cache::invalidate", "Cache::analyze", "Cache::get_diagnostics"]
        if any(len(cs.get(s, [])) != 1 for s in seq):
            rep.violation(rid, "%s|calls" % kind, "%s handler: expected exactly one call each of invalidate, analyze, get_diagnostics; found %s"
                          % (kind, {s: len(cs.get(s, [])) for s in seq}), site(b, (0, 0)))
            continue
        blocks = [cs[s][0][0][0] for s in seq]
        if b.dominates(blocks[0], blocks[1]) and b.dominates(blocks[1], blocks[2]) and blocks[0] != blocks[1] != blocks[2]:
            rep.ok(rid, "%s: invalidate < analyze < get_diagnostics" % kind)
        else:
            rep.violation(rid, "%s|order" % kind, "%s handler: invalidate, analyze, get_diagnostics are not executed in this order on every path "
                          "(diagnostics would come from a stale analysis)" % kind, site(b, cs["Cache::analyze"][0][0]))
        text = cs["Cache::analyze"][0][1][2]
        s = show(text, 2000)
        if kind == "DidOpenTextDocument":
            ok = any(x[0] == "field" and x[3] == "text" for x in walk(text)) and any(x[0] == "param" for x in walk(text))
            what = "params.text_document.text"
        else:
            last = re.search(r"DoubleEndedIterator>::next_back|slice::<impl \[T\]>::last\b|Vec::pop|Iterator::last\b", s)
            first = re.search(r"Iterator>::next\(|::first\b|Iterator::nth\(", s)
            ok = bool(last) and not first and "content_changes" in s
            what = "the last element of params.content_changes"
        if ok:
            rep.ok(rid, "%s: the analysed text is %s" % (kind, what))
        else:
            rep.violation(rid, "%s|text" % kind, "%s handler: the text handed to Cache::analyze is not %s (provenance: %s): the server would answer from "
                          "stale text" % (kind, what, show(text, 200)), site(b, cs["Cache::analyze"][0][0]))
    if found < 3:
        raise MissingAnchor("lelwel-ls: expected handlers for didOpen, didChange, didClose; found %d" % found)


def same_pipeline_rule(ctx, rep, rid="SAME"):
    rep.rule(rid, "DOM+PROV: the language server analyses a document with the same pipeline as the command-line check: in both `compile` and "
                  "`ide::analyze` the calls Parser::new -> Parser::parse -> SemanticPass::run occur in this dominance order on the document text and "
                  "collect into one diagnostics vector, and the diagnostics the server publishes are mapped from that very vector")
    from .lexrules import _base_var
    lib = ctx.lelwel()
    for fname in ("compile", "ide::analyze"):
        bs = [b for b in lib.find(fname) if b.name == fname]
        if len(bs) != 1:
            raise MissingAnchor("%s not found" % fname)
        b = bs[0]
        pr = P(b)
        cs = {}
        for pt, name, decl, args, t in calls(b):
            for tail in ("frontend::parser::Parser::new", "frontend::parser::Parser::parse", "frontend::sema::SemanticPass::run"):
                if name.endswith(tail):
                    cs.setdefault(tail, []).append((pt, t))
        order = ["frontend::parser::Parser::new", "frontend::parser::Parser::parse", "frontend::sema::SemanticPass::run"]
        if any(len(cs.get(o, [])) != 1 for o in order):
            rep.violation(rid, "%s|pipeline-calls" % fname, "%s: expected exactly one call each of Parser::new, Parser::parse and SemanticPass::run, found %s"
                          % (fname, {o.split("::")[-2] + "::" + o.split("::")[-1]: len(cs.get(o, [])) for o in order}))
            continue
        blocks = [cs[o][0][0][0] for o in order]
        if not (b.dominates(blocks[0], blocks[1]) and b.dominates(blocks[1], blocks[2])):
            rep.violation(rid, "%s|pipeline-order" % fname, "%s: lexing/parsing and the semantic pass are not executed in the order new -> parse -> run on every path" % fname,
                          site(b, cs[order[2]][0][0]))
            continue
        dvars = set()
        for o in order:
            t = cs[o][0][1]
            dvars.add(_base_var(b, t["args"][-1]))
        if len(dvars) != 1 or None in dvars:
            rep.violation(rid, "%s|one-vector" % fname, "%s: the three stages do not collect their diagnostics into one vector (%s)" % (fname, sorted(str(d) for d in dvars)),
                          site(b, cs[order[2]][0][0]))
            continue
        dv = dvars.pop()
        rep.ok(rid, "%s: Parser::new -> parse -> SemanticPass::run, all into `%s`" % (fname, dv))
        if fname == "ide::analyze":
            # the PublishDiagnostics notification is built from an iterator over that vector
            ok = False
            for pt, name, decl, args, t in calls(b):
                if _is_call(t, SEND) and _variant_of(pr.operand(t["args"][1]), "ide::Notification") == "PublishDiagnostics":
                    # look for a slice::iter / Deref call in this arm whose receiver is the vector
                    for pt2, n2, d2, a2, t2 in calls(b):
                        if (n2.endswith("slice::iter") or n2.endswith("Deref>::deref") or n2.endswith("Vec::iter")) and b.dominates(pt2[0], pt[0]) and t2["args"] and _base_var(b, t2["args"][0]) == dv:
                            ok = True
            if ok:
                rep.ok(rid, "ide::analyze: the published diagnostics are mapped from `%s`" % dv)
            else:
                rep.violation(rid, "ide::analyze|published-from", "ide::analyze: the PublishDiagnostics reply is not built from the vector the pipeline filled (`%s`)" % dv)
