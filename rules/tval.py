"""T-VAL: translation validation of generated rule functions against the grammar text.

For a grammar without left recursion, ordered choice and predicates, every decision the emitted parser takes is a switch on
the current token.  Walking the rule body as the grammar author wrote it (llwspec) yields the list of terminal matches, rule
calls and decisions the function must contain, in the order the generator emits them, each with the token sets the LL(1)
construction prescribes, recomputed here from the text with textbook first/follow sets:

    terminal T            match exactly {T}
    alternation           branch i selected by predict(b_i) = first(b_i) (+ follow(alternation) if b_i is nullable)
    x*, x+, [x]           body entered on first(x), left on follow(the construct)

Reading the same list off the MIR of the function (switches on the discriminant of Parser.current in source order, classified
by the macro they come from and by what their arms do) and comparing the two element by element validates the emitted parser
against its grammar: same structure (a), same decision sets (b).  By the LL(1) theorem (a)+(b) give, for that grammar,
"no diagnostic iff sentence" up to the error-recovery arms, which are not part of the comparison (recovery sets are C14's
subject; that they contain the end tokens is P1/P2)."""
import re
from .facts import MissingAnchor
from .skel import P, calls, site, short
from .prov import show, walk
from . import flow, llwspec
from .pratt import spec_of, token_names, _is_current_discr

UNSUPPORTED = {"left_recursion", "ordered_choice", "predicate"}


def _pos(t):
    l = (t.get("sp") or {}).get("l", "")
    m = re.search(r":(\d+):(\d+)$", l)
    return (int(m.group(1)), int(m.group(2))) if m else (0, 0)


def expected_items(g, fs, fo, rule):
    """decision list of a rule body from the grammar text"""
    body = g.rules[rule]
    items = []
    if body is None:
        return items
    nodeF = {}
    fo.walk(body, set(fo.follow[rule]), lambda n, F: nodeF.__setitem__(id(n), set(F)))

    def predict(n):
        nul, f = fs.of(n)
        return set(f) | (nodeF[id(n)] if nul else set())

    def emit(t):
        k = t[0]
        if k == "sym" or (k == "name" and t[1] not in g.rules):
            items.append(("tok", frozenset([g.tok(t)])))
        elif k == "name":
            items.append(("call", t[1]))
        elif k == "cat":
            for o in t[1]:
                emit(o)
        elif k == "alt":
            items.append(("alt", frozenset(frozenset(predict(o)) for o in t[1])))
            for o in t[1]:
                emit(o)
        elif k == "opt":
            items.append(("opt", frozenset(fs.of(t[1])[1]), frozenset(nodeF[id(t)])))
            emit(t[1])
        elif k == "star":
            items.append(("loop", frozenset(fs.of(t[1])[1]), frozenset(nodeF[id(t)])))
            emit(t[1])
        elif k == "plus":
            emit(t[1])
            items.append(("loop", frozenset(fs.of(t[1])[1]), frozenset(nodeF[id(t)])))
            emit(t[1])
        elif k == "paren":
            if t[1] is not None:
                emit(t[1])
        # renames, markers, creations, elision, actions, assertions, commit, return: no decision on the current token
    emit(body)
    return items


def actual_items(inst, b, names):
    """decision list of a generated rule function from its MIR"""
    pr = P(b)
    loops = b.loops()
    out = []
    for blk in sorted(b.reachable()):
        t = b.blocks[blk]["t"]
        if t["t"] == "call":
            e = pr.call_expr(t)
            m = re.search(r"Parser::rule_(\w+)$", e[1])
            if m:
                out.append((_pos(t), ("call", m.group(1)), blk))
            continue
        if t["t"] != "switch" or not _is_current_discr(pr.operand(t["d"])):
            continue
        groups = {}
        for v, tg in t["arms"]:
            if tg != t["else"]:
                groups.setdefault(tg, set()).add(names.get(v, "#%s" % v))
        macros = (t.get("sp") or {}).get("x") or []
        if any(m in ("expect", "try_expect") for m in macros):
            toks = frozenset().union(*groups.values()) if groups else frozenset()
            out.append((_pos(t), ("tok", frozenset(toks)), blk))
            continue
        # a recovering loop: the switch is the first decision after the header of a natural loop
        lp = None
        for L in loops:
            if blk in L["body"]:
                h = L["header"]
                x = h
                ok = False
                for _ in range(6):
                    if x == blk:
                        ok = True
                        break
                    tt = b.blocks[x]["t"]
                    if tt["t"] != "goto":
                        break
                    x = tt["to"]
                if ok and (lp is None or len(L["body"]) < len(lp["body"])):
                    lp = L
        if lp is not None:
            first, follow, recovery = set(), set(), set()
            is_opt = None
            E = b.ipdom().get(blk)
            hdr = lp["header"]
            for tg, toks in groups.items():
                role = _arm_role(b, pr, tg, E, hdr, lp["body"])
                if role == "follow":
                    follow |= toks
                elif role == "recovery":
                    recovery |= toks
                elif role == "first":
                    first |= toks
                    # optional: the body arm leaves the loop at its end (no path back to the header before the exit)
                    is_opt = tg not in lp["body"]
            out.append((_pos(t), ("opt" if is_opt else "loop", frozenset(first), frozenset(follow)), blk))
            continue
        order = sorted(groups.items(), key=lambda kv: _first_pos(b, kv[0]))
        sets = []
        for tg, toks in order:
            role = _alt_role(b, pr, tg)
            if role == "branch":
                sets.append(frozenset(toks))
        out.append((_pos(t), ("alt", frozenset(sets)), blk))
    out.sort(key=lambda x: x[0])
    return out


def _first_pos(b, blk):
    best = (10 ** 9, 0)
    for p, it in flow.points(b, blk):
        if isinstance(it, dict) and it.get("sp"):
            q = _pos(it)
            if q != (0, 0):
                best = min(best, q)
    return best


def _first_call(b, pr, blk, limit=6):
    """name of the first call reachable from blk through straight-line code"""
    x = blk
    for _ in range(limit):
        t = b.blocks[x]["t"]
        if t["t"] == "call":
            return pr.call_expr(t)[1]
        if t["t"] == "goto":
            x = t["to"]
            continue
        return None
    return None


def _arm_role(b, pr, tg, E, hdr, body=None):
    """what an explicit arm of a recovering loop does first: nothing but jump to the join behind the loop (follow: `break`), report and
    leave (recovery), or parse the body (first).  Inside a rule used in an ordered choice the report is preceded by
    `if in_ordered_choice { return None }`, which is followed along its false edge."""
    x = tg
    headers = {L["header"] for L in b.loops()}
    real_exit = E is not None and E != -1
    for _ in range(12):
        t = b.blocks[x]["t"]
        if x == E:
            return "follow"
        if (x != tg or (body is not None and x not in body)) and len(set(b.pred(x))) >= 2 and x not in headers:
            # functions that can `return None` have no block that post-dominates the decision: the loop's exit is the first join
            return "follow"
        if b.blocks[x]["s"] and any("rv" in st and st["a"]["p"] for st in b.blocks[x]["s"]):
            break
        if t["t"] == "goto":
            x = t["to"]
            continue
        break
    seen = set()
    st = [tg]
    while st:
        y = st.pop()
        if y in seen or y == E or y == hdr:
            continue
        seen.add(y)
        t = b.blocks[y]["t"]
        if t["t"] == "switch":
            e = pr.operand(t["d"])
            if e[0] == "field" and e[3] == "in_ordered_choice":
                st.append(t["arms"][0][1] if t["arms"] and t["arms"][0][0] == 0 else t["else"])
                continue
            return "first"
        if t["t"] == "call":
            n = pr.call_expr(t)[1]
            if n.endswith("Parser::error"):
                return "recovery"
            if n.endswith("Parser::advance_with_error"):
                return "skip"
            if n.endswith("Parser::span") or n.endswith("From<&str>>::from") or n.endswith("create_diagnostic") or n.endswith("String::from"):
                if t["to"] is not None:
                    st.append(t["to"])
                continue
            return "first"
        if t["t"] == "goto":
            st.append(t["to"])
        else:
            return "first"
    return "first"


def _alt_role(b, pr, tg):
    seen = set()
    st = [tg]
    n = 0
    while st and n < 12:
        y = st.pop()
        n += 1
        if y in seen:
            continue
        seen.add(y)
        t = b.blocks[y]["t"]
        if t["t"] == "call":
            nm = pr.call_expr(t)[1]
            if nm.endswith("Parser::advance_with_error"):
                return "skip"
            if nm.endswith("Parser::error"):
                return "error"
            if nm.endswith("Parser::span") or nm.endswith("String as std::convert::From<&str>>::from") or nm.endswith("create_diagnostic"):
                if t["to"] is not None:
                    st.append(t["to"])
                continue
            return "branch"
        if t["t"] == "goto":
            st.append(t["to"])
        else:
            return "branch"
    return "branch"


def _fmt(it):
    k = it[0]
    if k == "tok":
        return "match %s" % "/".join(sorted(it[1]))
    if k == "call":
        return "call %s" % it[1]
    if k == "alt":
        return "alternation " + " | ".join(sorted("{%s}" % ",".join(sorted(s)) for s in it[1]))
    return "%s first={%s} follow={%s}" % (k, ",".join(sorted(it[1])), ",".join(sorted(it[2])))


def tval_rule(ctx, rep, rid="TVAL"):
    rep.rule(rid, "TRANSLATION VALIDATION: for every rule function of the analysed grammars that is not left-recursive, contains no predicate or ordered "
                  "choice, "
                  "the sequence of terminal matches, rule calls and decisions read off the function's MIR (switches on Parser.current in source order) "
                  "equals the sequence the grammar text prescribes, and every decision's token sets equal the sets recomputed from the text with "
                  "textbook first/follow sets: a terminal matches exactly its token, alternation branch i is selected by predict(b_i), a repetition "
                  "or option is entered on first(body) and left on follow(construct). Recovery arms are not compared")
    nrules = 0
    nitems = 0
    skipped = {"left-recursive rule": 0, "rule contains a predicate or an ordered choice": 0}

    def has(t, kinds):
        if t is None:
            return False
        if t[0] in kinds:
            return True
        if t[0] in ("alt", "oc", "cat"):
            return any(has(o, kinds) for o in t[1])
        if t[0] in ("star", "plus", "opt", "paren"):
            return has(t[1], kinds)
        return False

    for inst in ctx.instances(with_corpus=True):
        if inst.grammar == "g_selfhost":
            continue
        try:
            g, fs = spec_of(inst)
        except MissingAnchor:
            continue
        fo = llwspec.Follow(g, fs)
        names = token_names(inst)
        for rule, b in sorted(inst.rules.items()):
            rname = rule[len("rule_"):]
            if rname not in g.rules:
                continue
            if any(k in ("left", "leftright") for k, _, _ in llwspec.pratt_branches(g, rname, fs)):
                skipped["left-recursive rule"] += 1
                continue
            if has(g.rules[rname], ("pred", "oc")):
                skipped["rule contains a predicate or an ordered choice"] += 1
                continue
            exp = expected_items(g, fs, fo, rname)
            act = [x[1] for x in actual_items(inst, b, names)]
            nrules += 1
            key = "%s|%s" % (inst.label, rule)
            bad = None
            for i in range(max(len(exp), len(act))):
                e = exp[i] if i < len(exp) else None
                a = act[i] if i < len(act) else None
                if e != a:
                    bad = (i, e, a)
                    break
            if bad is None:
                nitems += len(exp)
                rep.ok(rid, "%s %s: %d matches/calls/decisions agree with the grammar text" % (inst.label, rule, len(exp)), nontrivial=bool(exp))
            else:
                i, e, a = bad
                what = "decision sets differ" if (e and a and e[0] == a[0]) else "structure differs"
                rep.violation(rid, "%s|%s|%d" % (key, what.split()[0], i), "%s %s: element %d of the function does not agree with the grammar text of `%s` (%s): the text "
                              "prescribes `%s`, the generated code has `%s`" % (inst.label, rule, i, rname, what, _fmt(e) if e else "nothing more", _fmt(a) if a else "nothing more"),
                              site(b, (0, 0)))
    rep.count("rule functions validated against the grammar text", nrules)
    rep.count("matches, calls and decisions compared", nitems)
    rep.extra["tval_not_validated"] = skipped
    rep.extra["programs"] = nrules
    rep.extra["disagreements_checked"] = nitems
    rep.floor(rid, 300, "rule functions")
