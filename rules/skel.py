"""S-rules: rules evaluated on every instance of the runtime skeleton (src/skeleton/generated.rs as
instantiated by the generator: the ten examples, src/frontend/generated.rs and every corpus grammar)."""
from .facts import MissingAnchor, callee_of, clean
from .prov import Prov, show, walk, is_field, mentions_field, field_path
from . import flow

_PROV = {}


def P(body):
    p = _PROV.get(id(body))
    if p is None:
        p = _PROV[id(body)] = Prov(body)
    return p


def short(adt):
    return adt.rsplit("::", 1)[-1]


def stores(body):
    """(pt, adt_short, field, value_expr, stmt) for every assignment whose target ends in an ADT field"""
    pr = P(body)
    for pt, it in flow.all_points(body):
        if "rv" in it:
            pl = it["a"]
            projs = [x for x in pl["p"] if isinstance(x, dict)]
            if projs and "f" in projs[-1] and projs[-1]["adt"] and not projs[-1]["adt"].startswith("closure:") and pl["p"][-1] is projs[-1]:
                yield pt, short(projs[-1]["adt"]), projs[-1]["n"], pr.rvalue(it["rv"]), it


def calls(body):
    """(pt, resolved-or-declared name, declared name, arg exprs, term)"""
    pr = P(body)
    for b, t in body.calls():
        e = pr.call_expr(t)
        yield (b, len(body.blocks[b]["s"])), e[1], e[3], e[2], t


def fn_tail(name, n=2):
    return "::".join(name.split("::")[-n:])


def is_call(e, tail):
    return e[0] == "call" and (e[1] == tail or e[1].endswith("::" + tail) or e[3] == tail or e[3].endswith("::" + tail))


def site(body, pt):
    it = flow.item_at(body, pt)
    return it.get("sp", {}).get("l", "%s:%d" % (body.file, body.line)) if isinstance(it, dict) else ""


def generated_bodies(inst):
    for n, b in sorted(inst.fns.items()):
        yield n, b
    for n, b in sorted(inst.rules.items()):
        yield "Parser::" + n, b
    for n, bs in sorted(inst.nested.items()):
        for b in bs:
            yield "Parser::" + n + b.name.split(n, 1)[1], b


def balance(body, weight):
    """bytecode-verifier style: integer per block by propagation; returns (violations, value_at_returns)"""
    val = {0: 0}
    wl = [0]
    viol = []
    rets = {}
    out = {}
    while wl:
        b = wl.pop()
        v = val[b]
        for pt, it in flow.points(body, b):
            w = weight(pt, it)
            if w:
                v += w
        out[b] = v
        if body.blocks[b]["t"]["t"] == "return":
            rets[b] = v
        for s in body.succ(b):
            if s in val:
                if val[s] != v:
                    viol.append((b, s, val[s], v))
            else:
                val[s] = v
                wl.append(s)
    return viol, rets


# -------------------------------------------------------------------------------------------------
# S1  cursor / tree balance
# -------------------------------------------------------------------------------------------------
def s1_balance(inst, rep, rid="S1"):
    rep.rule(rid, "BAL: in every function generated into the parser module, on every path and round every loop, the "
                  "number of `Parser.pos <- pos + 1` stores equals the number of `CstData::advance` calls (each of which "
                  "pushes exactly one Node::Token(_, token_count) and increments token_count once); any other store to "
                  "`pos` must be a snapshot restore; token_count is written nowhere else")
    # CstData::advance itself
    adv = inst.fn("CstData::advance")
    pushes = []
    incs = []

    def w_push(pt, it):
        if isinstance(it, dict) and it.get("t") == "call":
            e = P(adv).call_expr(it)
            if is_call(e, "Vec::push") and mentions_field(e[2][0], "CstData", "nodes"):
                pushes.append((pt, e))
                return 1
        return 0

    viol, rets = balance(adv, w_push)
    if viol or set(rets.values()) != {1}:
        rep.violation(rid, "%s|CstData::advance|push-count" % inst.label if False else "CstData::advance|push-count",
                      "%s: CstData::advance does not push exactly one node on every path (counts at returns: %s)" % (inst.label, sorted(set(rets.values()))),
                      site(adv, (0, 0)))
    else:
        ok = True
        for pt, e in pushes:
            node = e[2][1]
            if not (node[0] == "agg" and node[1][0] == "adt" and short(node[1][1]) == "Node" and node[1][2] == "Token"
                    and mentions_field(node[2][1], "CstData", "token_count") and node[2][0][0] == "param"):
                ok = False
                rep.violation(rid, "CstData::advance|push-shape", "%s: CstData::advance pushes %s, expected Node::Token(token, token_count)" % (inst.label, show(node)), site(adv, pt))
        if ok:
            rep.ok(rid, "%s CstData::advance: one push of %s on every path" % (inst.label, show(pushes[0][1][2][1], 120)))

    def w_inc(pt, it):
        if "rv" in it:
            for spt, adt, f, val, st in stores_at(adv, pt, it):
                if adt == "CstData" and f == "token_count":
                    incs.append((pt, val))
                    return 1
        return 0

    viol, rets = balance(adv, w_inc)
    good = (not viol) and set(rets.values()) == {1} and all(
        v[0] == "bin" and v[1] == "Add" and is_field(v[2], "CstData", "token_count") and v[3] == ("const", "usize", 1) for _, v in incs)
    if good:
        rep.ok(rid, "%s CstData::advance: token_count <- token_count + 1 exactly once on every path" % inst.label)
    else:
        rep.violation(rid, "CstData::advance|token_count-inc", "%s: CstData::advance does not increment token_count exactly once by 1 on every path (%s)" % (
            inst.label, [show(v) for _, v in incs]), site(adv, (0, 0)))

    # every generated function: net balance 0
    nfun = 0
    for rel, body in generated_bodies(inst):
        if rel in ("CstData::advance",):
            continue
        events = []

        def w(pt, it, body=body, events=events):
            if isinstance(it, dict) and it.get("t") == "call":
                e = P(body).call_expr(it)
                if is_call(e, "CstData::advance"):
                    events.append(pt)
                    return 1
                return 0
            if "rv" in it:
                for spt, adt, f, val, st in stores_at(body, pt, it):
                    if adt == "Parser" and f == "pos":
                        if val[0] == "bin" and val[1] == "Add" and is_field(val[2], "Parser", "pos") and val[3] == ("const", "usize", 1):
                            events.append(pt)
                            return -1
                        if is_field(val, "ParserState", "pos"):
                            return 0   # restore, judged by S3
                        rep.violation(rid, "%s|pos-store|%s" % (rel, show(val, 80)),
                                      "%s: %s writes the cursor with `%s` (neither `pos + 1` nor a snapshot restore)" % (inst.label, rel, show(val)), site(body, pt))
                    if adt == "CstData" and f == "token_count" and rel != "CstData::truncate":
                        rep.violation(rid, "%s|token_count-store" % rel, "%s: %s writes CstData.token_count (only CstData::advance and CstData::truncate may)" % (inst.label, rel), site(body, pt))
            return 0

        viol, rets = balance(body, w)
        bad = viol or any(v != 0 for v in rets.values())
        if bad:
            what = "joins with different balances %s" % [(a, b, x, y) for a, b, x, y in viol[:3]] if viol else "returns with balance %s" % sorted(set(rets.values()))
            rep.violation(rid, "%s|unbalanced" % rel, "%s: %s moves the cursor and pushes token nodes unequally (%s): a token would be lost from or duplicated in the tree" % (inst.label, rel, what),
                          site(body, events[0]) if events else "%s:%d" % (body.file, body.line))
        else:
            nfun += 1
            if events:
                rep.ok(rid, "%s %s: %d cursor/push events balanced on all paths" % (inst.label, rel, len(events)))
            else:
                rep.ok(rid, None, nontrivial=False)
    rep.count("functions", nfun)


def stores_at(body, pt, it):
    if "rv" in it:
        pl = it["a"]
        projs = [x for x in pl["p"] if isinstance(x, dict)]
        if projs and "f" in projs[-1] and projs[-1]["adt"] and not projs[-1]["adt"].startswith("closure:") and pl["p"][-1] is projs[-1]:
            yield pt, short(projs[-1]["adt"]), projs[-1]["n"], P(body).rvalue(it["rv"]), it


# -------------------------------------------------------------------------------------------------
# S2  all input is in the tree when parse_rule returns (+ S2' the trailing-input report)
# -------------------------------------------------------------------------------------------------
def _cmp_pos_len(e):
    """e is a comparison of Parser.pos with Vec::len(Parser.tokens): return op or None"""
    if e[0] != "bin" or e[1] not in ("Ne", "Eq", "Lt", "Ge"):
        return None
    a, b = e[2], e[3]
    if is_field(a, "Parser", "pos") and b[0] == "call" and is_call(b, "Vec::len") and mentions_field(b[2][0], "Parser", "tokens"):
        return e[1]
    return None


def s2_complete(inst, rep, rid="S2"):
    rep.rule(rid, "DOM+PROV: in parse_rule every path from the call of the rule closure to the return takes an edge on which a "
                  "comparison of Parser.pos with tokens.len() establishes pos == len or !(pos < len); the edge pos != len reaches "
                  "Parser::error before any tree operation")
    body = inst.fn("Parser::parse_rule")
    pr = P(body)
    start = None
    for pt, name, decl, args, t in calls(body):
        if decl.endswith("Fn::call") and args and args[0][0] == "param":
            start = pt
    if start is None:
        raise MissingAnchor("%s: parse_rule does not call its rule closure" % inst.label)
    establishing = set()
    ne_edge = None
    for b in body.reachable():
        t = body.term(b)
        if t["t"] == "switch":
            op = _cmp_pos_len(pr.operand(t["d"]))
            if op:
                for tgt, lab in body.succ_edges(b):
                    val0 = (lab[0] == "v" and lab[1] == 0)
                    if (op in ("Ne", "Lt") and val0) or (op in ("Eq", "Ge") and not val0):
                        establishing.add((b, tgt))
                    elif op == "Ne":
                        ne_edge = (b, tgt)
    path = flow.find_path(body, start, flow.is_return, edge_ok=lambda s, t, l: (s, t) not in establishing)
    if path:
        rep.violation(rid, "parse_rule|return-without-pos==len", "%s: parse_rule can return without having established pos == tokens.len(): trailing input would be missing from the tree" % inst.label,
                      site(body, start), flow.describe_path(body, path))
    else:
        rep.ok(rid, "%s parse_rule: %d establishing edges cut every path from the rule call to the return" % (inst.label, len(establishing)))
    # S2': the pos != len edge reports
    if ne_edge is None:
        rep.violation(rid, "parse_rule|no-trailing-check", "%s: parse_rule has no `pos != tokens.len()` branch" % inst.label, site(body, start))
        return

    def is_err(pt, it):
        return isinstance(it, dict) and it.get("t") == "call" and is_call(pr.call_expr(it), "Parser::error")

    def is_treeop(pt, it):
        if isinstance(it, dict) and it.get("t") == "call":
            e = pr.call_expr(it)
            return any(is_call(e, x) for x in ("Parser::open", "CstData::advance", "CstData::close", "CstData::close_root", "Parser::close", "Parser::advance"))
        return False

    p = flow.find_path(body, (ne_edge[1], -1), lambda pt, it: is_treeop(pt, it) or flow.is_return(pt, it), blocks_point=is_err)
    if p:
        rep.violation(rid, "parse_rule|trailing-input-unreported", "%s: parse_rule reaches a tree operation or the return on the `pos != len` edge without calling Parser::error: trailing input would be accepted silently" % inst.label,
                      site(body, p[-1]), flow.describe_path(body, p))
    else:
        rep.ok(rid, "%s parse_rule: pos != len edge calls Parser::error before any tree operation" % inst.label)


# -------------------------------------------------------------------------------------------------
# S3  snapshot / restore symmetry
# -------------------------------------------------------------------------------------------------
def s3_snapshot(inst, rep, rid="S3"):
    rep.rule(rid, "SNAP: every field captured by get_state/mark_truncation is restored by set_state/truncate from that same "
                  "snapshot field on every path, and the captured set covers pos, current, nodes.len, token_count, non_skip_len, diags.len")
    gs = inst.fn("Parser::get_state")
    ss = inst.fn("Parser::set_state")
    mt = inst.fn("CstData::mark_truncation")
    tr = inst.fn("CstData::truncate")

    def agg_of(body, adtname):
        for pt, it in flow.all_points(body):
            if "rv" in it and it["a"]["l"] == 0 and not it["a"]["p"] and it["rv"]["r"] == "agg" and it["rv"].get("adt", "").endswith("::" + adtname):
                return pt, it["rv"], P(body).rvalue(it["rv"])
        raise MissingAnchor("%s: %s does not build a %s" % (inst.label, body.name, adtname))

    covered = set()

    def must_on_all_paths(body, pred, what, key):
        """pred(pt,item)->bool event must occur on every entry->return path"""
        p = flow.entry_path(body, flow.is_return, blocks_point=pred)
        if p:
            rep.violation(rid, key, "%s: %s has a path to its return that does not restore %s" % (inst.label, body.name, what),
                          "%s:%d" % (body.file, body.line), flow.describe_path(body, p))
            return False
        rep.ok(rid, "%s %s restores %s on every path" % (inst.label, fn_tail(body.name), what))
        return True

    # MarkTruncation
    _, rv, e = agg_of(mt, "MarkTruncation")
    for fname, val in zip(rv["fields"], e[2]):
        if val[0] == "call" and is_call(val, "Vec::len") and mentions_field(val[2][0], "CstData", "nodes"):
            covered.add("nodes.len")
            must_on_all_paths(tr, lambda pt, it: isinstance(it, dict) and it.get("t") == "call" and (lambda c: is_call(c, "Vec::truncate") and mentions_field(c[2][0], "CstData", "nodes") and is_field(c[2][1], "MarkTruncation", fname))(P(tr).call_expr(it)),
                              "nodes.len (Vec::truncate(nodes, mark.%s))" % fname, "truncate|nodes")
        elif val[0] == "field" and short(val[2]) == "CstData":
            f = val[3]
            covered.add(f)
            must_on_all_paths(tr, lambda pt, it, f=f: any(a == "CstData" and fl == f and is_field(v, "MarkTruncation", fname) for _, a, fl, v, _s in stores_at(tr, pt, it)),
                              "CstData.%s from mark.%s" % (f, fname), "truncate|%s" % f)
        else:
            rep.violation(rid, "mark_truncation|%s" % fname, "%s: mark_truncation captures `%s` for %s, which the rule cannot pair with a restore" % (inst.label, show(val), fname), "%s:%d" % (mt.file, mt.line))
    # ParserState
    _, rv, e = agg_of(gs, "ParserState")
    for fname, val in zip(rv["fields"], e[2]):
        if val[0] == "field" and short(val[2]) == "Parser":
            f = val[3]
            covered.add(f)
            must_on_all_paths(ss, lambda pt, it, f=f: any(a == "Parser" and fl == f and is_field(v, "ParserState", fname) for _, a, fl, v, _s in stores_at(ss, pt, it)),
                              "Parser.%s from state.%s" % (f, fname), "set_state|%s" % f)
        elif val[0] == "call" and is_call(val, "CstData::mark_truncation"):
            covered.add("truncation")
            must_on_all_paths(ss, lambda pt, it: isinstance(it, dict) and it.get("t") == "call" and (lambda c: is_call(c, "CstData::truncate") and any(is_field(x, "ParserState", fname) for x in walk(c[2][1])))(P(ss).call_expr(it)),
                              "the tree (CstData::truncate(state.%s))" % fname, "set_state|truncate")
        elif val[0] == "call" and (is_call(val, "slice::len") or is_call(val, "Vec::len")) and val[2][0][0] == "param":
            covered.add("diags.len")
            must_on_all_paths(ss, lambda pt, it: isinstance(it, dict) and it.get("t") == "call" and (lambda c: is_call(c, "Vec::truncate") and c[2][0][0] == "param" and is_field(c[2][1], "ParserState", fname))(P(ss).call_expr(it)),
                              "diags.len (Vec::truncate(diags, state.%s))" % fname, "set_state|diags")
        else:
            rep.violation(rid, "get_state|%s" % fname, "%s: get_state captures `%s` for %s, which the rule cannot pair with a restore" % (inst.label, show(val), fname), "%s:%d" % (gs.file, gs.line))
    need = {"pos", "current", "truncation", "diags.len", "nodes.len", "token_count", "non_skip_len"}
    miss = need - covered
    if miss:
        rep.violation(rid, "snapshot-incomplete|%s" % ",".join(sorted(miss)), "%s: the backtracking snapshot does not capture %s" % (inst.label, sorted(miss)), "%s:%d" % (gs.file, gs.line))
    else:
        rep.ok(rid, "%s snapshot covers %s" % (inst.label, sorted(covered)))
    return covered


# -------------------------------------------------------------------------------------------------
# S4  node-vector mutation discipline / layering
# -------------------------------------------------------------------------------------------------
VEC_MUT = ("push", "insert", "index_mut", "truncate", "remove", "swap_remove", "clear", "pop", "drain", "retain", "retain_mut", "extend",
           "append", "swap", "split_off", "dedup", "resize", "set_len", "as_mut_slice", "iter_mut", "deref_mut", "as_mut_ptr", "sort",
           "reverse", "fill", "extend_from_slice", "insert_mut", "push_mut", "first_mut", "last_mut", "get_mut", "splice", "leak",
           "into_boxed_slice", "as_mut", "borrow_mut", "spare_capacity_mut", "extend_from_within", "dedup_by", "dedup_by_key",
           "rotate_left", "rotate_right", "sort_by", "sort_by_key", "sort_unstable", "copy_from_slice", "clone_from_slice", "take")
NODES_ALLOWED = {
    "push": {"CstData::open", "CstData::advance"},
    "insert": {"CstData::open_before"},
    "index_mut": {"CstData::close", "CstData::close_root"},
    "truncate": {"CstData::truncate"},
}


def _method(name):
    return name.rsplit("::", 1)[-1]


def s4_nodes(inst, rep, rid="S4"):
    rep.rule(rid, "WHO: the only mutating Vec methods called on CstData.nodes are push (open, advance), insert (open_before), "
                  "index_mut (close, close_root), truncate (truncate); Node::Token is pushed only by CstData::advance; index_mut/insert "
                  "store a Node::Rule; MarkOpened is built only by open/open_before, MarkClosed only by close/close_root/mark; rule "
                  "functions never touch cst data, pos or current directly; Parser::advance pushes Parser.current; current is only "
                  "assigned tokens[pos], end_of_input or a snapshot value; tokens and spans are never mutated")
    nsite = 0
    for rel, body in generated_bodies(inst):
        pr = P(body)
        is_rulefn = rel.startswith("Parser::rule_")
        for pt, name, decl, args, t in calls(body):
            m = _method(name)
            if args and m in VEC_MUT or (args and _method(decl) in VEC_MUT):
                m = m if m in VEC_MUT else _method(decl)
                a0 = args[0]
                for fld, adt in (("nodes", "CstData"), ("tokens", "Parser"), ("spans", "CstData")):
                    if mentions_field(a0, adt, fld) and ("Vec" in name or "Vec" in decl or "slice" in name):
                        nsite += 1
                        if fld != "nodes":
                            rep.violation(rid, "%s|%s.%s|%s" % (rel, adt, fld, m), "%s: %s mutates %s.%s with %s (the token and span vectors are read-only after construction)" % (inst.label, rel, adt, fld, m), site(body, pt))
                            continue
                        allowed = NODES_ALLOWED.get(m, set())
                        if rel not in allowed:
                            rep.violation(rid, "%s|nodes|%s" % (rel, m), "%s: %s calls Vec::%s on CstData.nodes (allowed only in %s)" % (inst.label, rel, m, sorted(allowed) or "no function"), site(body, pt))
                        else:
                            good = True
                            if m in ("push", "insert"):
                                node = args[-1]
                                if not (node[0] == "agg" and node[1][0] == "adt" and short(node[1][1]) == "Node"):
                                    good = False
                                elif node[1][2] == "Token" and rel != "CstData::advance":
                                    good = False
                                elif node[1][2] == "Rule" and rel == "CstData::advance":
                                    good = False
                                if not good:
                                    rep.violation(rid, "%s|nodes|%s|shape" % (rel, m), "%s: %s %ss `%s` into the node vector" % (inst.label, rel, m, show(node)), site(body, pt))
                            if good:
                                rep.ok(rid, "%s %s: Vec::%s on nodes" % (inst.label, rel, m))
        # stores through index_mut results must be Node::Rule aggregates
        if rel in ("CstData::close", "CstData::close_root"):
            for pt, it in flow.all_points(body):
                if "rv" in it and it["a"]["p"] == ["*"]:
                    base = pr.local(it["a"]["l"])
                    if base[0] == "call" and is_call(base, "index_mut"):
                        v = pr.rvalue(it["rv"])
                        if v[0] == "agg" and v[1][0] == "adt" and short(v[1][1]) == "Node" and v[1][2] == "Rule":
                            rep.ok(rid, "%s %s stores %s" % (inst.label, rel, show(v, 100)))
                        else:
                            rep.violation(rid, "%s|index_mut-store" % rel, "%s: %s overwrites a node with `%s` (expected Node::Rule)" % (inst.label, rel, show(v)), site(body, pt))
        # mark construction
        for pt, it in flow.all_points(body):
            if "rv" in it and it["rv"]["r"] == "agg" and it["rv"].get("k") == "adt":
                a = short(it["rv"]["adt"])
                if a == "MarkOpened" and rel not in ("CstData::open", "CstData::open_before"):
                    rep.violation(rid, "%s|MarkOpened" % rel, "%s: %s constructs a MarkOpened (only CstData::open / open_before may)" % (inst.label, rel), site(body, pt))
                elif a == "MarkClosed" and rel not in ("CstData::close", "CstData::close_root", "CstData::mark"):
                    rep.violation(rid, "%s|MarkClosed" % rel, "%s: %s constructs a MarkClosed (only CstData::close / close_root / mark may)" % (inst.label, rel), site(body, pt))
                elif a in ("MarkOpened", "MarkClosed"):
                    rep.ok(rid, "%s %s constructs %s" % (inst.label, rel, a))
        # layering: rule functions do not touch the cursor, the tree data or private state directly
        for pt, adt, f, val, st in stores(body):
            if is_rulefn and adt in ("Parser", "CstData", "Cst") and not (adt == "Parser" and f in ("in_ordered_choice", "error_since_advance")):
                rep.violation(rid, "%s|store|%s.%s" % (rel, adt, f), "%s: rule function %s writes %s.%s directly" % (inst.label, rel, adt, f), site(body, pt))
            if adt == "Parser" and f == "current":
                okv = (val[0] == "field" and short(val[2]) == "Parser" and val[3] == "end_of_input") or is_field(val, "ParserState", "current")
                if not okv:
                    # Deref(Some(get(tokens,pos)))
                    okv = any(x[0] == "call" and is_call(x, "slice::get") and mentions_field(x[2][0], "Parser", "tokens") and is_field(x[2][1], "Parser", "pos") for x in walk(val))
                if okv:
                    rep.ok(rid, "%s %s: current <- %s" % (inst.label, rel, show(val, 90)))
                else:
                    rep.violation(rid, "%s|current-store|%s" % (rel, show(val, 60)), "%s: %s assigns Parser.current from `%s` (not tokens[pos], end_of_input or a snapshot)" % (inst.label, rel, show(val)), site(body, pt))
        if is_rulefn:
            for pt, name, decl, args, t in calls(body):
                if name.startswith(inst.prefix + "::CstData::") or "::CstData::" in name:
                    rep.violation(rid, "%s|calls|%s" % (rel, fn_tail(name)), "%s: rule function %s calls %s directly, bypassing the Parser wrapper (error node not closed first)" % (inst.label, rel, fn_tail(name)), site(body, pt))
    # the token pushed by Parser::advance is Parser.current
    adv = inst.fn("Parser::advance")
    first = None
    for pt, name, decl, args, t in calls(adv):
        if name.endswith("CstData::advance"):
            first = (pt, args)
            break
    if first and is_field(first[1][1], "Parser", "current") and first[1][2] == ("const", "bool", 0) and adv.dominates(first[0][0], [b for b in adv.exits()][0]):
        rep.ok(rid, "%s Parser::advance pushes Parser.current (skip=false) before moving the cursor" % inst.label)
    else:
        rep.violation(rid, "Parser::advance|pushes-current", "%s: Parser::advance does not push Parser.current as a non-skipped token node first" % inst.label, "%s:%d" % (adv.file, adv.line))
    rep.count("vec-mutation sites", nsite)


# -------------------------------------------------------------------------------------------------
# S5  error node closed before any other tree operation
# -------------------------------------------------------------------------------------------------
TREE_OPS = ("CstData::open", "CstData::open_before", "CstData::close", "CstData::close_root", "CstData::mark")


def _closes_param(inst, name):
    """`name` is a skeleton helper that closes the mark it is given as a parameter"""
    for rel, body in inst.fns.items():
        if name.endswith(rel) and rel.startswith("Parser::"):
            for pt, nm, d, a, t in calls(body):
                if nm.endswith("CstData::close") and len(a) > 1 and a[1][0] == "param":
                    return True
    return False


def _s5_callers_ok(inst, rel, body, args, tail):
    sites = []
    for crel, cb in generated_bodies(inst):
        for cpt, nm, d, a, t in calls(cb):
            if nm.endswith("::" + rel) or nm == rel or nm.endswith(rel):
                sites.append((crel, cb, cpt, a))
    if not sites:
        return False
    for crel, cb, cpt, a in sites:
        cen = [p[0] for p, nm, d, aa, t in calls(cb) if nm.endswith("Parser::close_error_node")]
        if any(cb.dominates(x, cpt[0]) and x != cpt[0] for x in cen):
            continue
        if crel == "Parser::close_error_node" and tail == "CstData::close" and len(args) > 1 and args[1][0] == "param":
            idx = args[1][1] - 1
            if idx < len(a) and any(is_field(x, "Parser", "error_node") for x in walk(a[idx])):
                continue
        return False
    return True


def s5_errnode(inst, rep, rid="S5"):
    rep.rule(rid, "DOM: in every Parser method each call of CstData::{open, open_before, close, close_root, mark} is dominated by a "
                  "call of close_error_node (exceptions: the open *of* the error node under error_node.is_none(), and the close inside "
                  "close_error_node itself); error_node is set to Some only there and to None only in close_error_node after the close")
    n = 0
    for rel, body in generated_bodies(inst):
        if not rel.startswith("Parser::"):
            continue
        pr = P(body)
        cen_blocks = [pt[0] for pt, name, decl, args, t in calls(body) if name.endswith("Parser::close_error_node")]
        for pt, name, decl, args, t in calls(body):
            tail = fn_tail(name)
            if tail not in TREE_OPS:
                continue
            n += 1
            if rel == "Parser::close_error_node" and tail == "CstData::close":
                # must close the error node: arg is the payload of self.error_node
                if any(is_field(x, "Parser", "error_node") for x in walk(args[1])):
                    rep.ok(rid, "%s close_error_node closes Parser.error_node" % inst.label)
                else:
                    rep.violation(rid, "close_error_node|closes-other", "%s: close_error_node closes `%s`, not the error node" % (inst.label, show(args[1])), site(body, pt))
                continue
            if rel == "Parser::advance_with_error" and tail == "CstData::open":
                # guarded open of the error node: result stored to error_node
                stored = any(a == "Parser" and f == "error_node" for _, a, f, v, _s in stores(body))
                if stored:
                    rep.ok(rid, "%s advance_with_error opens the error node" % inst.label)
                    continue
            if rel.startswith("Parser::advance_with_error::{closure") and tail == "CstData::open":
                # `self.error_node.get_or_insert_with(|| data.open())`: the closure runs only when there is no error node, its result becomes the node
                parent = inst.fns.get("Parser::advance_with_error")
                if parent is not None and any(_method(d) == "get_or_insert_with" and any(is_field(x, "Parser", "error_node") for x in walk(a[0])) for p_, nm, d, a, t in calls(parent)):
                    rep.ok(rid, "%s advance_with_error opens the error node through error_node.get_or_insert_with" % inst.label)
                    continue
            dom = any(body.dominates(cb, pt[0]) and cb != pt[0] for cb in cen_blocks)
            if not dom:
                # a helper: every call site of this function is itself behind close_error_node, or is close_error_node handing over the error node
                dom = _s5_callers_ok(inst, rel, body, args, tail)
            if dom:
                rep.ok(rid, "%s %s: %s dominated by close_error_node" % (inst.label, rel, tail))
            else:
                rep.violation(rid, "%s|%s|no-close_error_node" % (rel, tail), "%s: %s calls %s without first closing a pending error node: the error node would swallow or be nested wrongly in the new node" % (inst.label, rel, tail), site(body, pt))
        for pt, adt, f, val, st in stores(body):
            if adt == "Parser" and f == "error_node":
                isnone = val[0] == "agg" and val[1][0] == "adt" and val[1][2] == "None"
                issome = val[0] == "agg" and val[1][0] == "adt" and val[1][2] == "Some"
                if isnone and rel == "Parser::close_error_node":
                    # after the close
                    cl = [p[0] for p, nm, d, a, t in calls(body) if nm.endswith("CstData::close") or _closes_param(inst, nm)]
                    if cl and all(body.dominates(c, pt[0]) for c in cl):
                        rep.ok(rid, "%s close_error_node clears error_node after the close" % inst.label)
                    else:
                        rep.violation(rid, "close_error_node|clear-before-close", "%s: close_error_node clears error_node on a path that has not closed it" % inst.label, site(body, pt))
                elif issome and rel == "Parser::advance_with_error":
                    # under is_none()
                    guard = False
                    for b in body.reachable():
                        t = body.term(b)
                        if t["t"] == "switch":
                            e = pr.operand(t["d"])
                            if e[0] == "call" and is_call(e, "Option::is_none") and mentions_field(e[2][0], "Parser", "error_node"):
                                for tgt, lab in body.succ_edges(b):
                                    if lab[0] == "else" and flow.edge_dominates(body, (b, tgt), pt[0]):
                                        guard = True
                    if guard and val[2] and val[2][0][0] == "call" and is_call(val[2][0], "CstData::open"):
                        rep.ok(rid, "%s advance_with_error sets error_node = Some(open()) under is_none()" % inst.label)
                    else:
                        rep.violation(rid, "advance_with_error|error_node-unguarded", "%s: advance_with_error overwrites error_node without the is_none() guard (an open error node would leak)" % inst.label, site(body, pt))
                elif rel in ("Parser::new_with_context",):
                    pass
                else:
                    rep.violation(rid, "%s|error_node-store" % rel, "%s: %s writes Parser.error_node" % (inst.label, rel), site(body, pt))
    rep.count("tree-operation call sites", n)


# -------------------------------------------------------------------------------------------------
# S8  report precedes error-mode consumption
# -------------------------------------------------------------------------------------------------
def s8_report_first(inst, rep, rid="S8"):
    rep.rule(rid, "DOM+WHO: Parser::advance is called with error=true only from advance_with_error, and there the call is dominated by "
                  "the call of Parser::error with the diagnostic parameter")
    for rel, body in generated_bodies(inst):
        for pt, name, decl, args, t in calls(body):
            if name.endswith("Parser::advance") and fn_tail(name) == "Parser::advance":
                flag = args[1]
                if flag == ("const", "bool", 0):
                    continue
                if rel != "Parser::advance_with_error":
                    rep.violation(rid, "%s|advance(error=%s)" % (rel, show(flag, 30)), "%s: %s calls Parser::advance with error=%s; only advance_with_error may consume in error mode" % (inst.label, rel, show(flag)), site(body, pt))
                    continue
                errs = [p[0] for p, nm, d, a, tt in calls(body) if fn_tail(nm) == "Parser::error" and a[2][0] == "param"]
                if errs and any(body.dominates(e, pt[0]) and e != pt[0] for e in errs):
                    rep.ok(rid, "%s advance_with_error: error(diag) dominates advance(true)" % inst.label)
                else:
                    rep.violation(rid, "advance_with_error|consume-before-report", "%s: advance_with_error consumes before (or without) reporting" % inst.label, site(body, pt))


# -------------------------------------------------------------------------------------------------
# S9 / S10 / S11  diagnostics protocol
# -------------------------------------------------------------------------------------------------
def _is_diag_vec_push(inst, body, name, decl, args):
    return (name.endswith("Vec::push") or decl.endswith("Vec::push")) and args and args[0][0] in ("param", "local") and "Diagnostic" in body.local_ty(args[0][1]) if args and args[0][0] in ("param", "local") else False


def s9_guard(inst, rep, rid="S9"):
    rep.rule(rid, "WHO+DOM: inside a parser module a diagnostic is pushed only (i) in Parser::error on the false edge of active_error() "
                  "after the store error_since_advance <- true, (ii) in the assertion shape (store error_since_advance <- true, then push of "
                  "the assertion's own diagnostic); active_error reads error_node and error_since_advance")
    for rel, body in generated_bodies(inst):
        pr = P(body)
        for pt, name, decl, args, t in calls(body):
            if not _method(name) in ("push", "insert", "extend", "append", "push_mut", "insert_mut", "extend_from_slice"):
                continue
            if not args or "Vec" not in name + decl:
                continue
            a0 = args[0]
            tyok = a0[0] in ("param", "local") and "Diagnostic" in body.local_ty(a0[1])
            if not tyok:
                # upvar diags inside closures
                tyok = a0[0] == "field" and a0[3] in ("diags",) and "closure" in a0[2]
            if not tyok:
                continue
            if rel == "Parser::error":
                facts = _bool_gates(body, pt[0])
                not_active = any(a[0] == "call" and is_call(a, "Parser::active_error") and tr is False for a, tr in facts)
                # or the definition of active_error written out: no open error node and nothing reported since the last advance
                no_node = any(a[0] == "call" and mentions_field(a, "Parser", "error_node") and ((is_call(a, "Option::is_none") and tr is True) or (is_call(a, "Option::is_some") and tr is False)) for a, tr in facts)
                no_flag = any(is_field(a, "Parser", "error_since_advance") and tr is False for a, tr in facts)
                guard = not_active or (no_node and no_flag)
                st = [p for p, a, f, v, _s in stores(body) if a == "Parser" and f == "error_since_advance" and v == ("const", "bool", 1)]
                same = any(body.dominates(p[0], pt[0]) and body.postdominates(pt[0], p[0]) for p in st)
                if guard and same and args[1][0] == "param":
                    rep.ok(rid, "%s Parser::error: push guarded by !active_error() and paired with error_since_advance <- true" % inst.label)
                else:
                    rep.violation(rid, "Parser::error|unguarded-push", "%s: Parser::error pushes a diagnostic %s%s" % (
                        inst.label, "" if guard else "without the !active_error() guard ", "" if same else "without setting error_since_advance on the same path"), site(body, pt))
            elif rel.startswith("Parser::rule_"):
                v = args[1]
                isassert = any(x[0] == "call" and "assertion_" in x[1] for x in walk(v))
                st = [p for p, a, f, vv, _s in stores(body) if a == "Parser" and f == "error_since_advance" and vv == ("const", "bool", 1)]
                pre = any(body.dominates(p[0], pt[0]) for p in st)
                if isassert and pre:
                    rep.ok(rid, "%s %s: assertion diagnostic pushed after error_since_advance <- true" % (inst.label, rel))
                else:
                    rep.violation(rid, "%s|diag-push" % rel, "%s: %s pushes `%s` onto the diagnostics directly (only Parser::error and the assertion shape may)" % (inst.label, rel, show(v, 100)), site(body, pt))
            else:
                rep.violation(rid, "%s|diag-push" % rel, "%s: %s pushes onto the diagnostics directly" % (inst.label, rel), site(body, pt))
    ae = inst.fn("Parser::active_error")
    e_reads = set()
    for pt, it in flow.all_points(ae):
        ex = None
        if "rv" in it:
            ex = P(ae).rvalue(it["rv"])
        elif it.get("t") == "call":
            ex = P(ae).call_expr(it)
        elif it.get("t") == "switch":
            ex = P(ae).operand(it["d"])
        if ex:
            for x in walk(ex):
                if x[0] == "field" and short(x[2]) == "Parser":
                    e_reads.add(x[3])
    if {"error_node", "error_since_advance"} <= e_reads:
        rep.ok(rid, "%s active_error reads %s" % (inst.label, sorted(e_reads)))
    else:
        rep.violation(rid, "active_error|reads", "%s: active_error reads only %s" % (inst.label, sorted(e_reads)), "%s:%d" % (ae.file, ae.line))


def s10_clear(inst, rep, rid="S10"):
    rep.rule(rid, "WHO+DOM: error_since_advance <- false only in Parser::advance on the !error edge (and in the constructor); "
                  "error_since_advance <- true only in Parser::error and the assertion shape")
    for rel, body in generated_bodies(inst):
        pr = P(body)
        for pt, adt, f, val, st in stores(body):
            if adt != "Parser" or f != "error_since_advance":
                continue
            if val == ("const", "bool", 0):
                if rel == "Parser::advance":
                    good = False
                    for b in body.reachable():
                        tt = body.term(b)
                        if tt["t"] == "switch":
                            e = pr.operand(tt["d"])
                            if e[0] == "param" and e[2] == "error":
                                for tgt, lab in body.succ_edges(b):
                                    if lab == ("v", 0) and flow.edge_dominates(body, (b, tgt), pt[0]):
                                        good = True
                    if good:
                        rep.ok(rid, "%s Parser::advance clears error_since_advance on the !error edge only" % inst.label)
                    else:
                        rep.violation(rid, "Parser::advance|clear-unguarded", "%s: Parser::advance clears error_since_advance also when consuming in error mode (cascading diagnostics)" % inst.label, site(body, pt))
                else:
                    rep.violation(rid, "%s|clears-error_since_advance" % rel, "%s: %s clears error_since_advance (only a successful consumption may)" % (inst.label, rel), site(body, pt))
            elif val == ("const", "bool", 1):
                if rel == "Parser::error" or rel.startswith("Parser::rule_"):
                    rep.ok(rid, None, nontrivial=False)
                else:
                    rep.violation(rid, "%s|sets-error_since_advance" % rel, "%s: %s sets error_since_advance" % (inst.label, rel), site(body, pt))
            else:
                rep.violation(rid, "%s|error_since_advance<-%s" % (rel, show(val, 40)), "%s: %s writes error_since_advance from `%s`" % (inst.label, rel, show(val)), site(body, pt))


def s11_span(inst, rep, rid="S11"):
    rep.rule(rid, "PROV: the span argument of every create_diagnostic call in generated code is the result of Parser::span; "
                  "Parser::span returns spans.get(pos) or max_offset..max_offset; max_offset is source.len()")
    n = 0
    for rel, body in generated_bodies(inst):
        for pt, name, decl, args, t in calls(body):
            if _method(decl) == "create_diagnostic":
                n += 1
                sp = args[1]
                if sp[0] == "call" and is_call(sp, "Parser::span"):
                    rep.ok(rid, "%s %s: create_diagnostic(span = Parser::span())" % (inst.label, rel) if n < 3 else None)
                else:
                    rep.violation(rid, "%s|create_diagnostic|%s" % (rel, show(sp, 60)), "%s: %s builds a diagnostic whose span is `%s`, not the cursor span" % (inst.label, rel, show(sp)), site(body, pt))
    spn = inst.fn("Parser::span")
    pr = P(spn)
    good = False
    for pt, name, decl, args, t in calls(spn):
        if is_call(pr.call_expr(t), "Option::map_or"):
            opt, dflt = args[0], args[1]
            g1 = any(x[0] == "call" and is_call(x, "slice::get") and mentions_field(x[2][0], "CstData", "spans") and is_field(x[2][1], "Parser", "pos") for x in walk(opt))
            g2 = dflt[0] == "agg" and all(is_field(o, "Parser", "max_offset") for o in dflt[2])
            good = g1 and g2
    if good:
        rep.ok(rid, "%s Parser::span = spans.get(pos).map_or(max_offset..max_offset, clone)" % inst.label)
    else:
        rep.violation(rid, "Parser::span|shape", "%s: Parser::span no longer returns spans.get(pos) or max_offset..max_offset" % inst.label, "%s:%d" % (spn.file, spn.line))
    nw = inst.fn("Parser::new_with_context")
    okm = False
    for pt, it in flow.all_points(nw):
        if "rv" in it and it["rv"]["r"] == "agg" and it["rv"].get("adt", "").endswith("::Parser"):
            e = P(nw).rvalue(it["rv"])
            d = dict(zip(it["rv"]["fields"], e[2]))
            mo = d.get("max_offset")
            if mo and mo[0] == "call" and is_call(mo, "str::len") and mo[2][0][0] == "param":
                okm = True
    if okm:
        rep.ok(rid, "%s max_offset = source.len()" % inst.label)
    else:
        rep.violation(rid, "new_with_context|max_offset", "%s: max_offset is not initialised from source.len()" % inst.label, "%s:%d" % (nw.file, nw.line))
    rep.count("create_diagnostic sites", n)


# -------------------------------------------------------------------------------------------------
# S7 / S18  cursor saturation and termination of the skeleton's own loops
# -------------------------------------------------------------------------------------------------
def s7_saturate(inst, rep, rid="S7"):
    rep.rule(rid, "DOM: in every skeleton function that fetches tokens.get(pos) and classifies the token (advance, init_skip or a helper; "
                  "advance refills through one of them) the None outcome assigns current <- end_of_input on every path and leaves the loop; "
                  "every cycle of every loop of the skeleton's cursor functions passes `pos <- pos + 1` and the loop has an exit on the "
                  "None edge of tokens.get(pos) or on !(pos < tokens.len())")
    cursor_fns = [(rel, body) for rel, body, _pr, fetch, pushes, cur in _skip_sites(inst) if fetch]
    if not cursor_fns:
        rep.violation(rid, "no-cursor-function", "%s: no skeleton function fetches tokens.get(pos) and classifies the token (advance/init_skip not recognised)" % inst.label, "")
    calls_of = {rel: {fn_tail(name) for pt, name, decl, args, t in calls(inst.fn(rel))} for rel in ("Parser::advance",)}
    if not any(rel == "Parser::advance" for rel, _ in cursor_fns) and not any(fn_tail(r) in calls_of["Parser::advance"] for r, _ in cursor_fns):
        rep.violation(rid, "Parser::advance|no-refill", "%s: Parser::advance neither fetches the next token itself nor calls a function that does" % inst.label, "")
    for rel, body in cursor_fns:
        pr = P(body)
        found = False
        for b in body.reachable():
            t = body.term(b)
            if t["t"] != "switch":
                continue
            e = pr.operand(t["d"])
            if e[0] == "discr" and e[1][0] == "call" and is_call(e[1], "slice::get") and mentions_field(e[1][2][0], "Parser", "tokens") and is_field(e[1][2][1], "Parser", "pos"):
                explicit = [v for v, _ in t["arms"]]
                for tgt, lab in body.succ_edges(b):
                    if lab == ("v", 0) or (lab[0] == "else" and 0 not in explicit):  # the None outcome
                        found = True
                        # on this edge: current <- end_of_input is stored on every path before the function returns, and the path does not
                        # go round the fetch loop again
                        loops = [L for L in body.loops() if b in L["body"]]
                        leaves = all(tgt not in L["body"] or not _reaches_back(body, tgt, L) for L in loops)

                        def is_eoi_store(q, it):
                            return any(a == "Parser" and f == "current" and v[0] == "field" and v[3] == "end_of_input" for _p, a, f, v, _s in stores_at(body, q, it)) if isinstance(it, dict) else False
                        escapes = flow.find_path(body, (tgt, -1), flow.is_return, blocks_point=is_eoi_store)
                        good_store = escapes is None
                        if good_store and leaves:
                            rep.ok(rid, "%s %s: None edge sets current <- end_of_input and leaves the loop" % (inst.label, rel))
                        else:
                            rep.violation(rid, "%s|none-edge" % rel, "%s: %s at end of input %s%s" % (inst.label, rel, "" if good_store else "does not set current to end_of_input ", "" if leaves else "stays in the skip loop"), site(body, (b, len(body.blocks[b]["s"]))))
        if not found:
            rep.violation(rid, "%s|no-get" % rel, "%s: %s has no tokens.get(pos) test" % (inst.label, rel), "%s:%d" % (body.file, body.line))
    for rel in sorted({r for r, _ in cursor_fns} | {"Parser::advance", "Parser::init_skip", "Parser::parse_rule"}):
        body = inst.fn(rel)
        pr = P(body)
        for L in body.loops():
            incs = {p[0] for p, a, f, v, _s in stores(body) if a == "Parser" and f == "pos" and v[0] == "bin" and v[1] == "Add" and p[0] in L["body"]}
            # a cycle through the header avoiding all increment blocks?
            cyc = _cycle_avoiding(body, L, incs)
            if cyc:
                rep.violation(rid, "%s|loop-without-progress" % rel, "%s: %s has a loop cycle that does not move the cursor" % (inst.label, rel), site(body, (L["header"], 0)), " -> ".join("bb%d" % x for x in cyc))
            else:
                rep.ok(rid, "%s %s: every cycle of the loop at bb%d moves the cursor" % (inst.label, rel, L["header"]))


def _reaches_back(body, start, L):
    seen = {start}
    st = [start]
    while st:
        x = st.pop()
        for s in body.succ(x):
            if s == L["header"]:
                return True
            if s in L["body"] and s not in seen:
                seen.add(s)
                st.append(s)
    return False


def _cycle_avoiding(body, L, avoid):
    h = L["header"]
    if h in avoid:
        return None
    prev = {h: None}
    st = [h]
    while st:
        x = st.pop()
        for s in body.succ(x):
            if s not in L["body"] or s in avoid:
                continue
            if s == h:
                path = [x]
                while prev[path[-1]] is not None:
                    path.append(prev[path[-1]])
                path.reverse()
                return path + [h]
            if s not in prev:
                prev[s] = x
                st.append(s)
    return None


# -------------------------------------------------------------------------------------------------
# S13  delete callbacks before truncation
# -------------------------------------------------------------------------------------------------
def s13_delete(inst, rep, rid="S13"):
    rep.rule(rid, "DOM: in set_state the loop calling delete_node for every Node::Rule in [snapshot node_count, nodes.len()) is "
                  "completed before CstData::truncate is called, and diags is truncated to the snapshot count")
    body = inst.fn("Parser::set_state")
    pr = P(body)
    dels = [(pt, args) for pt, name, decl, args, t in calls(body) if fn_tail(name) == "Parser::delete_node"]
    trs = [(pt, args) for pt, name, decl, args, t in calls(body) if fn_tail(name) == "CstData::truncate"]
    if not dels or not trs:
        rep.violation(rid, "set_state|missing-delete-or-truncate", "%s: set_state does not call %s" % (inst.label, "delete_node" if not dels else "CstData::truncate"), "%s:%d" % (body.file, body.line))
        return
    for pt, args in dels:
        loops = [L for L in body.loops() if pt[0] in L["body"]]
        good = bool(loops)
        # the loop ranges from state.truncation_mark.node_count to nodes.len()
        rng = [x for x in walk(args[2]) if x[0] == "agg" and x[1][0] == "adt" and short(x[1][1]) == "Range"]
        good = good and any(is_field(r[2][0], "MarkTruncation", "node_count") and r[2][1][0] == "call" and is_call(r[2][1], "Vec::len") and mentions_field(r[2][1][2][0], "CstData", "nodes") for r in rng)
        # rule kind read from nodes[i]
        good = good and any(x[0] == "variant" and x[3] == "Rule" for x in walk(args[1]))
        for tpt, targs in trs:
            if any(tpt[0] in L["body"] for L in loops) or not all(body.dominates(L["header"], tpt[0]) for L in loops):
                good = False
            # truncate must not be reachable-before: no path from entry to the loop header passing truncate
            if flow.entry_path(body, lambda p, it: p == pt, blocks_point=None, edge_ok=None) and \
               flow.find_path(body, tpt, lambda p, it: p == pt):
                good = False
        # every iteration whose node is a rule node announces it: a path round the loop that avoids delete_node must leave the
        # `node is a Rule` switch on one of its other edges
        skipping = None
        if good:
            L = min(loops, key=lambda l: len(l["body"]))
            node_adt = inst.unit.adts.get(inst.adt("Node")) or {}
            rule_discr = [v["d"] for v in node_adt.get("variants", []) if v["n"] == "Rule"]
            not_rule_edges = set()
            for bb in L["body"]:
                tt = body.blocks[bb]["t"]
                if tt["t"] == "switch":
                    e = pr.operand(tt["d"])
                    if e[0] == "discr" and short(e[2]) == "Node":
                        for tgt, lab in body.succ_edges(bb):
                            if not (lab[0] == "v" and lab[1] in rule_discr):
                                not_rule_edges.add((bb, tgt))
            if not rule_discr or not not_rule_edges:
                good = False
            else:
                for s0 in body.succ(L["header"]):
                    if s0 not in L["body"]:
                        continue
                    pth = flow.find_path(body, (s0, -1), lambda p, it: p[0] == L["header"] and p[1] == 0, blocks_point=lambda p, it: p == pt,
                                         edge_ok=lambda a, b2, lab: b2 in L["body"] and (a, b2) not in not_rule_edges)
                    if pth is not None:
                        skipping = pth
        if good and skipping is not None:
            rep.violation(rid, "set_state|delete-skips-rule-nodes", "%s: in set_state an iteration whose node is a rule node can go round the loop without calling "
                          "delete_node (an extra condition on the node): a node that was announced by a created callback and is then discarded is "
                          "not announced as deleted" % inst.label, site(body, pt), flow.describe_path(body, skipping))
        elif good:
            rep.ok(rid, "%s set_state: delete_node loop over [state.node_count, nodes.len()) precedes truncate" % inst.label)
        else:
            rep.violation(rid, "set_state|delete-after-truncate", "%s: set_state does not announce every discarded rule node before truncating (loop bounds, order or node kind changed)" % inst.label, site(body, pt))


# -------------------------------------------------------------------------------------------------
# S12  write-set of an attempt is inside the snapshot
# -------------------------------------------------------------------------------------------------
S12_EXEMPT = {
    ("Parser", "in_ordered_choice"): "owned by the choice-mode typestate rule G-F1",
}
S12_NOT_IN_ATTEMPT = {"Parser::parse_rule", "Parser::new_with_context", "Parser::new", "Parser::parse", "Parser::set_state", "CstData::truncate",
                      "CstData::new", "Parser::get_state", "CstData::mark_truncation", "CstData::close_root", "Parser::close_root", "Parser::init_skip"}


def s12_writeset(inst, rep, covered, rid="S12"):
    rep.rule(rid, "ACCESS: every Parser/CstData field written by a skeleton method that can run inside an ordered-choice attempt "
                  "(advance, open, close, open_before, mark, error, advance_with_error, close_error_node ...) has a slot in the backtracking "
                  "snapshot, or is in the exemption table with a reason")
    snap = set()
    for c in covered:
        if c in ("pos", "current"):
            snap.add(("Parser", c))
        elif c in ("token_count", "non_skip_len"):
            snap.add(("CstData", c))
    written = {}
    for rel, body in generated_bodies(inst):
        if rel in S12_NOT_IN_ATTEMPT or rel.startswith("Parser::rule_") or rel.startswith("Parser::parse_"):
            continue
        if not (rel.startswith("Parser::") or rel.startswith("CstData::")):
            continue
        for pt, adt, f, val, st in stores(body):
            if adt in ("Parser", "CstData", "Cst"):
                written.setdefault((adt, f), []).append((rel, body, pt))
    for (adt, f), sites in sorted(written.items()):
        if (adt, f) in snap:
            rep.ok(rid, "%s %s.%s written by %s: restored by set_state" % (inst.label, adt, f, sorted({r for r, _, _ in sites})))
        elif (adt, f) in S12_EXEMPT:
            rep.ok(rid, "%s %s.%s exempt: %s" % (inst.label, adt, f, S12_EXEMPT[(adt, f)]), nontrivial=False)
        else:
            rel, body, pt = sites[0]
            rep.violation(rid, "%s.%s|written-in-attempt-not-snapshotted" % (adt, f),
                          "%s: %s.%s is written by %s, which can run inside an ordered-choice attempt, but get_state/set_state do not save and restore it: "
                          "an abandoned alternative leaves a trace in it" % (inst.label, adt, f, sorted({r for r, _, _ in sites})), site(body, pt))


# -------------------------------------------------------------------------------------------------
# S14..S17  skipped tokens
# -------------------------------------------------------------------------------------------------
def skip_set_of_switch(inst, body, expr_pred):
    """variant names on the explicit arms of the first switch whose discriminant satisfies expr_pred -> {target: [variants]}"""
    pr = P(body)
    tok = inst.token_adt()
    res = []
    for b in sorted(body.reachable()):
        t = body.term(b)
        if t["t"] != "switch":
            continue
        e = pr.operand(t["d"])
        if e[0] == "discr" and short(e[2]) == "Token" and expr_pred(e[1]):
            by = {}
            for v, tgt in t["arms"]:
                by.setdefault(tgt, set()).add(inst.unit.enum_variant(tok, v))
            res.append((b, t, by))
    return res


def _fetched(e):
    """the value comes out of `self.tokens.get(..)` (a token fetched from the input vector)"""
    return any(x[0] == "call" and is_call(x, "slice::get") for x in walk(e))


def skipped_set(inst):
    """the Token variants for which is_skipped returns true, by evaluating its body once per variant (switch edges on the
    parameter's discriminant are pruned to the variant; the constants that can reach the return value are collected)"""
    isk = inst.fn("Parser::is_skipped")
    pr = P(isk)
    tok = inst.token_adt()
    names = inst.unit.enum_variants(tok)
    if not names:
        raise MissingAnchor("%s: no variant table for the Token enum" % inst.label)
    rets = [(pt, pr.rvalue(it["rv"])) for pt, it in flow.all_points(isk) if "rv" in it and it["a"]["l"] == 0 and not it["a"]["p"]]
    out = set()
    undecided = []
    for v in names:
        def ok(s_, tgt, lab):
            t = isk.term(s_)
            if t["t"] != "switch":
                return True
            e = pr.operand(t["d"])
            if e[0] == "discr" and e[1][0] == "param":
                if lab[0] == "v":
                    return inst.unit.enum_variant(tok, lab[1]) == v
                return v not in {inst.unit.enum_variant(tok, x) for x in lab[1]}
            return True
        vals = set()
        for pt, e in rets:
            if flow.find_path(isk, (0, -1), lambda q, it: q == pt, edge_ok=ok):
                vals.add(e if e[0] == "const" else ("?",))
        if vals == {("const", "bool", 1)}:
            out.add(v)
        elif vals != {("const", "bool", 0)}:
            undecided.append(v)
    return out, undecided


def _scenario_edges(inst, body, pr, skip, scen):
    """edge filter for one class of fetched token: A = in the skip set; B = not in it, predicate_skip true; C = not in it, predicate_skip false"""
    tok = inst.token_adt()
    names = set(inst.unit.enum_variants(tok))

    def ok(s_, tgt, lab):
        t = body.term(s_)
        if t["t"] != "switch":
            return True
        e = pr.operand(t["d"])
        if e[0] == "discr" and short(e[2]) == "Token" and _fetched(e[1]):
            if lab[0] == "v":
                vs = {inst.unit.enum_variant(tok, lab[1])}
            else:
                vs = names - {inst.unit.enum_variant(tok, x) for x in lab[1]}
            return bool(vs & skip) if scen == "A" else bool(vs - skip)
        truth = False if lab == ("v", 0) else True if (lab[0] == "else" and lab[1] == (0,)) else None
        if truth is None:
            return True
        facts = []
        _atoms(e, truth, facts)
        for a, tr in facts:
            if a[0] == "call" and is_call(a, "Parser::is_skipped") and a[2] and _fetched(a[2][0]):
                if tr != (scen == "A"):
                    return False
            if a[0] == "call" and _method(a[3]) == "predicate_skip" and scen != "A":
                if tr != (scen == "B"):
                    return False
        return True
    return ok


def _atoms(e, truth, out):
    if e[0] == "un" and e[1] == "Not":
        _atoms(e[2], not truth, out)
    elif e[0] == "bin" and e[1] == "BitAnd" and truth:
        _atoms(e[2], True, out); _atoms(e[3], True, out)
    elif e[0] == "bin" and e[1] == "BitOr" and not truth:
        _atoms(e[2], False, out); _atoms(e[3], False, out)
    else:
        out.append((e, truth))


def _flag_value(e, scen):
    """value of a skip-flag expression for a fetched token of class `scen` (None = not determined)"""
    if e[0] == "const" and e[1] == "bool":
        return bool(e[2])
    if e[0] == "call" and is_call(e, "Parser::is_skipped") and e[2] and _fetched(e[2][0]):
        return scen == "A"
    if e[0] == "call" and _method(e[3]) == "predicate_skip":
        return None if scen == "A" else scen == "B"
    if e[0] == "un" and e[1] == "Not":
        v = _flag_value(e[2], scen)
        return None if v is None else not v
    if e[0] == "bin" and e[1] in ("BitOr", "BitAnd"):
        x, y = _flag_value(e[2], scen), _flag_value(e[3], scen)
        if e[1] == "BitOr":
            return True if (x or y) else (False if (x is False and y is False) else None)
        return False if (x is False or y is False) else (True if (x and y) else None)
    return None


SKIP_LOOP_FNS_EXCLUDED = ("Parser::parse_rule",)   # its trailing-input loop is decided by S17 (flag == is_skipped(token))


def _skip_sites(inst):
    """per skeleton function: fetch points, pushes of a fetched token, stores of a fetched token to Parser.current"""
    for rel, body in sorted(inst.fns.items()):
        if not rel.startswith("Parser::") or rel in SKIP_LOOP_FNS_EXCLUDED:
            continue
        pr = P(body)
        fetch = [pt for pt, name, decl, args, t in calls(body) if fn_tail(name, 1) == "get" and is_call(pr.call_expr(t), "slice::get")
                 and any(is_field(y, "Parser", "tokens") for a in args for y in walk(a))]
        pushes = [(pt, args) for pt, name, decl, args, t in calls(body) if fn_tail(name) == "CstData::advance" and _fetched(args[1])]
        cur = [(pt, val) for pt, adt, f, val, st in stores(body) if adt == "Parser" and f == "current" and _fetched(val)]
        if pushes or cur:
            yield rel, body, pr, fetch, pushes, cur


def s14_skipset(inst, rep, rid="S14"):
    rep.rule(rid, "PATH (per token class): wherever the skeleton pushes a token it has just fetched from the input vector "
                  "(CstData::advance(token, flag) in advance / init_skip or a helper of theirs), the flag is true, and the site is reachable "
                  "exactly for tokens that is_skipped() or predicate_skip() classify as skipped: the feasible paths from the fetch are "
                  "enumerated for the three classes `in the skip set`, `not in it and predicate_skip`, `not in it and not predicate_skip`, "
                  "pruning matches on the token, is_skipped(token) and predicate_skip(token) tests accordingly; the skip set is read off "
                  "is_skipped by evaluating it per variant and contains Error")
    skip, undecided = skipped_set(inst)
    isk = inst.fn("Parser::is_skipped")
    if undecided:
        rep.violation(rid, "is_skipped|undecided", "%s: is_skipped does not return a constant for the variants %s" % (inst.label, undecided[:5]), "%s:%d" % (isk.file, isk.line))
    if "Error" not in skip:
        rep.violation(rid, "is_skipped|error-not-skipped", "%s: is_skipped(Token::Error) is false: lexer error tokens would reach the grammar" % inst.label, "%s:%d" % (isk.file, isk.line))
    npush = 0
    for rel, body, pr, fetch, pushes, cur in _skip_sites(inst):
        fset = set(fetch)
        for pt, args in pushes:
            npush += 1
            bad = None
            if not fetch:
                bad = "no fetch from Parser.tokens found in front of the push"
            for scen, what in (("A", "a token of the skip set"), ("B", "a token that predicate_skip marks as skipped"), ("C", "a significant token")):
                if bad:
                    break
                ok = _scenario_edges(inst, body, pr, skip, scen)
                reach = any(flow.find_path(body, f, lambda q, it: q == pt, blocks_point=lambda q, it: q in fset, edge_ok=ok) for f in fetch)
                if scen == "C":
                    if reach:
                        bad = "the push is reachable for a significant token (neither in the skip set nor predicate-skipped)"
                elif reach:
                    v = _flag_value(args[2], scen)
                    if v is not True:
                        bad = "for %s the skip flag `%s` is %s" % (what, show(args[2], 80), "false" if v is False else "not determined")
            # each skipped class must reach some push in this function
            if bad:
                rep.violation(rid, "%s|skip-flag" % rel, "%s: %s pushes a fetched token with a wrong skip flag: %s (a node could start or end with a "
                              "skipped token, or a significant token be treated as trivia)" % (inst.label, rel, bad), site(body, pt))
            else:
                rep.ok(rid, "%s %s: fetched token pushed with skip=true exactly for skipped classes" % (inst.label, rel))
        if fetch and pushes:
            for scen, what in (("A", "in the skip set"), ("B", "predicate-skipped")):
                ok = _scenario_edges(inst, body, pr, skip, scen)
                if not any(flow.find_path(body, f, lambda q, it: q in {p for p, _ in pushes}, blocks_point=lambda q, it: q in fset, edge_ok=ok) for f in fetch):
                    rep.violation(rid, "%s|class-%s-not-pushed" % (rel, scen), "%s: %s never pushes a token that is %s" % (inst.label, rel, what), "%s:%d" % (body.file, body.line))
    if npush == 0:
        rep.violation(rid, "no-skip-push", "%s: no site pushes a fetched token with a skip flag (advance/init_skip not recognised)" % inst.label, "%s:%d" % (isk.file, isk.line))
    return skip


def s15_eager(inst, rep, skipset=None, rid="S15"):
    rep.rule(rid, "PATH (per token class): every store of a fetched token to Parser.current is unreachable for a token of the skip set and for a "
                  "token predicate_skip marks as skipped, and reachable for a significant token (a skipped token never becomes current)")
    skip, _ = skipped_set(inst)
    n = 0
    for rel, body, pr, fetch, pushes, cur in _skip_sites(inst):
        fset = set(fetch)
        for pt, val in cur:
            n += 1
            bad = None
            if not fetch:
                bad = "no fetch from Parser.tokens found in front of the store"
            for scen, what in (("A", "a token of the skip set"), ("B", "a token that predicate_skip marks as skipped")):
                if bad:
                    break
                ok = _scenario_edges(inst, body, pr, skip, scen)
                if any(flow.find_path(body, f, lambda q, it: q == pt, blocks_point=lambda q, it: q in fset, edge_ok=ok) for f in fetch):
                    bad = "%s can become current" % what
            if not bad:
                ok = _scenario_edges(inst, body, pr, skip, "C")
                if not any(flow.find_path(body, f, lambda q, it: q == pt, blocks_point=lambda q, it: q in fset, edge_ok=ok) for f in fetch):
                    bad = "a significant token never becomes current here"
            if bad:
                rep.violation(rid, "%s|current<-skipped" % rel, "%s: %s: %s" % (inst.label, rel, bad), site(body, pt))
            else:
                rep.ok(rid, "%s %s: current <- token only for significant tokens" % (inst.label, rel))
    if n == 0:
        rep.violation(rid, "no-current-store", "%s: no store of a fetched token to Parser.current found" % inst.label, "")


def s20_skip_pure(inst, rep, rid="S20"):
    rep.rule(rid, "PATH (per token class): on the paths taken for a skipped token (in the skip set, or predicate-skipped) between fetching it and "
                  "fetching the next one, the skeleton writes no parser state other than the cursor `pos` (the token itself goes to the tree "
                  "through CstData::advance): no store to error_since_advance, error_node, current or in_ordered_choice and no call of "
                  "Parser::error - otherwise inserting a skipped or lexer-error token changes which diagnostics are reported")
    skip, _ = skipped_set(inst)
    n = 0
    for rel, body, pr, fetch, pushes, cur in _skip_sites(inst):
        if not fetch:
            continue
        fset = set(fetch)
        bad_pts = [(pt, "store to Parser.%s" % f) for pt, adt, f, val, st in stores(body) if adt == "Parser" and f not in ("pos",) and not (f == "current")]
        bad_pts += [(pt, "call of %s" % fn_tail(name)) for pt, name, decl, args, t in calls(body) if fn_tail(name) in ("Parser::error", "Parser::close_error_node", "Parser::advance_with_error")]
        for scen, what in (("A", "a token of the skip set"), ("B", "a predicate-skipped token")):
            n += 1
            ok = _scenario_edges(inst, body, pr, skip, scen)
            hit = None
            for pt, desc in bad_pts:
                if any(flow.find_path(body, f, lambda q, it: q == pt, blocks_point=lambda q, it: q in fset, edge_ok=ok) for f in fetch):
                    # only a violation if the path then continues to the next fetch (i.e. it is the skip path, not the path that ends the loop)
                    if any(flow.find_path(body, pt, lambda q, it: q in fset, edge_ok=ok) for _ in (0,)):
                        hit = (pt, desc)
                        break
            if hit:
                rep.violation(rid, "%s|skip-path-writes|%s" % (rel, hit[1]), "%s: %s: stepping over %s performs a %s: skipped tokens are no longer transparent to the "
                              "error state" % (inst.label, rel, what, hit[1]), site(body, hit[0]))
            else:
                rep.ok(rid, "%s %s: the path for %s writes only the cursor" % (inst.label, rel, what))
    if n == 0:
        rep.violation(rid, "no-skip-loop", "%s: no skip loop recognised" % inst.label, "")


def _bool_gates(body, block):
    """atomic facts (expr, truth) of every two-way boolean switch edge that dominates `block`"""
    pr = P(body)
    out = []
    for b in sorted(body.reachable()):
        t = body.term(b)
        if t["t"] != "switch" or [v for v, _ in t["arms"]] != [0]:
            continue
        e = pr.operand(t["d"])
        f_tgt = t["arms"][0][1]
        if f_tgt != t["else"]:
            if flow.edge_dominates(body, (b, f_tgt), block):
                _atoms(e, False, out)
            if flow.edge_dominates(body, (b, t["else"]), block):
                _atoms(e, True, out)
    return out


def _token_read(e):
    """e is a token read from Parser.tokens (`tokens.get(i)` payload or `tokens[i]`): return the index expression"""
    x = e
    while x[0] in ("field", "variant"):
        x = x[1]
    if x[0] == "call" and (is_call(x, "slice::get") or _method(x[3]) == "index") and len(x[2]) == 2 and any(is_field(y, "Parser", "tokens") for y in walk(x[2][0])):
        return x[2][1]
    return None


def _s16_loop_form(inst, body, rel):
    """explicit-loop lookahead: (a) every returned value is end_of_input or a token read whose own is_skipped test is false on a
    dominating edge; (b) between the is_skipped-true edge and the next loop iteration only index variables are written"""
    pr = P(body)
    rets = [(pt, pr.rvalue(it["rv"])) for pt, it in flow.all_points(body) if "rv" in it and it["a"]["l"] == 0 and not it["a"]["p"]]
    for d in body.defs().get(0, []):
        if d[2] == "call":
            rets.append(((d[0], len(body.blocks[d[0]]["s"])), pr.call_expr(d[3])))
    if not rets:
        return "no return value found"
    idx_locals = set()
    ntok = 0
    for pt, e in rets:
        if is_field(e, "Parser", "end_of_input"):
            continue
        ix = _token_read(e)
        if ix is None:
            return "returns `%s`, which is neither end_of_input nor a token read from Parser.tokens" % show(e, 80)
        ntok += 1
        idx_locals |= {y[1] for y in walk(ix) if y[0] == "local"}
        g = _bool_gates(body, pt[0])
        if not any(a[0] == "call" and is_call(a, "Parser::is_skipped") and a[2] and a[2][0] == e and tr is False for a, tr in g):
            return "the returned token `%s` is not guarded by the false edge of is_skipped on that same token" % show(e, 80)
    if ntok == 0:
        return "never returns a token"
    # (b) writes on the skipped path
    heads = {lp["header"] for lp in body.loops()}
    for b in sorted(body.reachable()):
        t = body.term(b)
        if t["t"] != "switch" or [v for v, _ in t["arms"]] != [0]:
            continue
        e = pr.operand(t["d"])
        for truth, tgt in ((False, t["arms"][0][1]), (True, t["else"])):
            facts = []
            _atoms(e, truth, facts)
            if not any(a[0] == "call" and is_call(a, "Parser::is_skipped") and tr is True for a, tr in facts):
                continue
            seen, todo = set(), [tgt]
            while todo:
                x = todo.pop()
                if x in seen or x in heads:
                    continue
                seen.add(x)
                for i, st in enumerate(body.blocks[x]["s"]):
                    if "rv" in st and not st["a"]["p"] and body.varname(st["a"]["l"]) and st["a"]["l"] not in idx_locals:
                        return "on the path taken for a skipped token the variable `%s` is written: skipped tokens influence the lookahead count" % body.varname(st["a"]["l"])
                todo.extend(body.succ(x))
    return None


def s16_peek(inst, rep, rid="S16"):
    rep.rule(rid, "DOM: peek and peek_left never offer a skipped token and do not count one: either (iterator form) the token iterator starts "
                  "at the cursor (`skip(pos)`, resp. `take(pos + 1).rev()`) and passes through Iterator::filter with a closure that is "
                  "`!is_skipped(token)` before nth(n); or (loop form) every returned token is the argument of an is_skipped test whose false "
                  "edge dominates the return, and on the path taken for a skipped token only the vector index is written")
    for rel in ("Parser::peek", "Parser::peek_left"):
        body = inst.fn(rel)
        pr = P(body)
        iter_calls = [(pt, name, decl, args) for pt, name, decl, args, t in calls(body) if _method(decl) in ("nth", "filter", "find", "skip", "take", "skip_while", "position", "find_map", "filter_map")]
        if not iter_calls:
            why = _s16_loop_form(inst, body, rel)
            if why is None:
                rep.ok(rid, "%s %s: explicit loop; returned tokens guarded by !is_skipped, skipped path writes only the index" % (inst.label, rel))
            else:
                rep.violation(rid, "%s|unfiltered-lookahead" % rel, "%s: %s offers lookahead that may see or count skipped tokens (%s)" % (inst.label, rel, why), "%s:%d" % (body.file, body.line))
            continue
        nth = [(pt, args) for pt, name, decl, args in iter_calls if _method(decl) == "nth"]
        good = False
        why = "no nth() call"
        for pt, args in nth:
            it = args[0]
            filt = [x for x in walk(it) if x[0] == "call" and _method(x[3]) == "filter"]
            why = "iterator is not filtered"
            for fx in filt:
                clo = fx[2][1]
                cid = None
                if clo[0] == "agg" and clo[1][0] == "closure":
                    cid = clo[1][1]
                elif clo[0] == "closure":
                    cid = clo[1]
                if cid and cid in inst.unit.bodies:
                    cb = inst.unit.bodies[cid]
                    # closure returns Not(is_skipped(token))
                    rets = [P(cb).rvalue(s["rv"]) for p, s in flow.all_points(cb) if "rv" in s and s["a"]["l"] == 0 and not s["a"]["p"]]
                    if rets and all(r[0] == "un" and r[1] == "Not" and r[2][0] == "call" and is_call(r[2], "Parser::is_skipped") for r in rets):
                        good = True
                    else:
                        why = "filter closure is not `!is_skipped(token)`: %s" % [show(r, 80) for r in rets]

            def _is_pos(x):
                return is_field(x, "Parser", "pos")

            def _is_pos1(x):
                return x[0] == "bin" and x[1] == "Add" and ((_is_pos(x[2]) and x[3][0] == "const" and x[3][2] == 1) or (_is_pos(x[3]) and x[2][0] == "const" and x[2][2] == 1))
            src = [x for x in walk(it) if x[0] == "call" and _method(x[3]) in ("skip", "take")]
            src_ok = len(src) == 1 and ((_method(src[0][3]) == "skip" and _is_pos(src[0][2][1]) and not any(x[0] == "call" and _method(x[3]) == "rev" for x in walk(it)))
                                        or (_method(src[0][3]) == "take" and _is_pos1(src[0][2][1]) and any(x[0] == "call" and _method(x[3]) == "rev" for x in walk(it))))
            if good and not src_ok:
                good = False
                why = "iterator does not start at the cursor (expected skip(pos), or take(pos + 1) reversed)"
            if good and not (args[1][0] == "param"):
                good = False
                why = "nth() is not given the lookahead parameter"
        if good:
            rep.ok(rid, "%s %s: tokens.iter()...filter(!is_skipped).nth(n)" % (inst.label, rel))
        else:
            rep.violation(rid, "%s|unfiltered-lookahead" % rel, "%s: %s offers lookahead that may see skipped tokens (%s)" % (inst.label, rel, why), "%s:%d" % (body.file, body.line))


def s17_ends(inst, rep, rid="S17"):
    rep.rule(rid, "PROV: the end offset stored by CstData::close derives from non_skip_len and the mark (never nodes.len()); close_root "
                  "uses nodes.len(); CstData::advance updates non_skip_len only on the !skip edge; the trailing-input loop of parse_rule "
                  "classifies tokens with is_skipped")
    cl = inst.fn("CstData::close")
    pr = P(cl)
    for pt, it in flow.all_points(cl):
        if "rv" in it and it["a"]["p"] == ["*"]:
            base = pr.local(it["a"]["l"])
            if base[0] == "call" and is_call(base, "index_mut"):
                v = pr.rvalue(it["rv"])
                # follow the multi-def local carrying the offset
                offs = []
                for x in walk(v):
                    if x[0] == "local":
                        for d in cl.defs().get(x[1], []):
                            if d[2] == "assign":
                                offs.append(pr.rvalue(d[3]["rv"]))
                uses_len = any(y[0] == "call" and is_call(y, "Vec::len") for o in offs + [v] for y in walk(o))
                uses_nsl = any(mentions_field(o, "CstData", "non_skip_len") for o in offs + [v])
                if uses_nsl and not uses_len:
                    rep.ok(rid, "%s CstData::close end offset from non_skip_len: %s" % (inst.label, [show(o, 60) for o in offs]))
                else:
                    rep.violation(rid, "CstData::close|end-offset", "%s: CstData::close computes the node end from %s: trailing skipped tokens would be included in the node" % (inst.label, "nodes.len()" if uses_len else "something other than non_skip_len"), site(cl, pt))
    cr = inst.fn("CstData::close_root")
    pr = P(cr)
    for pt, it in flow.all_points(cr):
        if "rv" in it and it["a"]["p"] == ["*"]:
            v = pr.rvalue(it["rv"])
            if any(y[0] == "call" and is_call(y, "Vec::len") and mentions_field(y[2][0], "CstData", "nodes") for y in walk(v)):
                rep.ok(rid, "%s CstData::close_root end offset from nodes.len()" % inst.label)
            else:
                rep.violation(rid, "CstData::close_root|end-offset", "%s: close_root does not extend the root to nodes.len(): trailing skipped tokens would fall outside the tree" % inst.label, site(cr, pt))
    adv = inst.fn("CstData::advance")
    pr = P(adv)
    for pt, adt, f, val, st in stores(adv):
        if adt == "CstData" and f == "non_skip_len":
            g = False
            for b in adv.reachable():
                tt = adv.term(b)
                if tt["t"] == "switch" and pr.operand(tt["d"])[0] == "param" and pr.operand(tt["d"])[2] == "skip":
                    for tgt, lab in adv.succ_edges(b):
                        if lab == ("v", 0) and flow.edge_dominates(adv, (b, tgt), pt[0]):
                            g = True
            if g and val[0] == "call" and is_call(val, "Vec::len"):
                rep.ok(rid, "%s CstData::advance: non_skip_len <- nodes.len() only when !skip" % inst.label)
            else:
                rep.violation(rid, "CstData::advance|non_skip_len", "%s: CstData::advance updates non_skip_len for skipped tokens too" % inst.label, site(adv, pt))
    prb = inst.fn("Parser::parse_rule")
    for pt, name, decl, args, t in calls(prb):
        if fn_tail(name) == "CstData::advance":
            if args[2][0] == "call" and is_call(args[2], "Parser::is_skipped"):
                rep.ok(rid, "%s parse_rule trailing loop: advance(token, is_skipped(token))" % inst.label)
            else:
                rep.violation(rid, "parse_rule|trailing-skip-flag", "%s: the trailing-input loop passes skip=%s" % (inst.label, show(args[2], 60)), site(prb, pt))


# -------------------------------------------------------------------------------------------------
# summaries that GPAI relies on, checked on each instance
# -------------------------------------------------------------------------------------------------
def field_writes_transitive(inst):
    """method -> set of (adt, field) written by it or by skeleton methods it calls"""
    direct = {}
    callees = {}
    for rel, body in generated_bodies(inst):
        if rel.startswith("Parser::rule_"):
            continue
        direct[rel] = {(a, f) for _, a, f, v, _s in stores(body) if a in ("Parser", "CstData", "Cst")}
        cs = set()
        for pt, name, decl, args, t in calls(body):
            tail = fn_tail(name)
            if tail in inst.fns:
                cs.add(tail)
        callees[rel] = cs
    changed = True
    tw = {k: set(v) for k, v in direct.items()}
    while changed:
        changed = False
        for k in tw:
            for c in callees[k]:
                if c in tw and not tw[c] <= tw[k]:
                    tw[k] |= tw[c]
                    changed = True
    return tw


# -------------------------------------------------------------------------------------------------
# S19  a node closed behind the non-skip length is pulled into it
# -------------------------------------------------------------------------------------------------
def s19_close_bump(inst, rep, rid="S19"):
    rep.rule(rid, "DOM: in CstData::close every path to the return either passes the 'mark is not beyond the non-skip length' side of a "
                  "comparison between the mark and non_skip_len, or passes a store that raises non_skip_len to a value computed from the mark: "
                  "an (empty) node opened after trailing skipped tokens must be covered by the non-skip length once it is closed, otherwise it "
                  "falls outside its parent's extent and the parent ends with a skipped token")
    cl = inst.fn("CstData::close")
    pr = P(cl)
    mark_params = [i for i in range(1, cl.argc + 1) if cl.local_ty(i).endswith("MarkOpened")]
    if not mark_params:
        raise MissingAnchor("%s: CstData::close has no MarkOpened parameter" % inst.label)

    def is_mark(e):
        return any(x[0] == "param" and x[1] in mark_params for x in walk(e))

    def is_nsl(e):
        if mentions_field(e, "CstData", "non_skip_len"):
            return True
        # a local that was assigned from non_skip_len (`let len = self.non_skip_len - 1`)
        for x in walk(e):
            if x[0] == "local":
                for d in cl.defs().get(x[1], []):
                    if d[2] == "assign" and mentions_field(pr.rvalue(d[3]["rv"]), "CstData", "non_skip_len"):
                        return True
        return False

    store_blocks = set()
    for pt, adt, f, val, st in stores(cl):
        if adt == "CstData" and f == "non_skip_len" and is_mark(val):
            store_blocks.add(pt[0])
    ok_edges = set()
    for b in sorted(cl.reachable()):
        t = cl.blocks[b]["t"]
        if t["t"] != "switch" or [v for v, _ in t["arms"]] != [0]:
            continue
        e = pr.operand(t["d"])
        if e[0] != "bin" or e[1] not in ("Gt", "Lt", "Ge", "Le"):
            continue
        a, c = e[2], e[3]
        if is_mark(a) and is_nsl(c) and not is_mark(c):
            greater_when_true = e[1] in ("Gt", "Ge")      # mark > len / mark >= len
        elif is_nsl(a) and is_mark(c) and not is_mark(a):
            greater_when_true = e[1] in ("Lt", "Le")      # len < mark
        else:
            continue
        false_tgt = t["arms"][0][1]
        true_tgt = t["else"]
        ok_edges.add((b, false_tgt) if greater_when_true else (b, true_tgt))
    path = flow.find_path(cl, (0, -1), flow.is_return, blocks_point=lambda p, it: p[0] in store_blocks and p[1] == 0,
                          edge_ok=lambda s, t, lab: (s, t) not in ok_edges and t not in store_blocks)
    if 0 in store_blocks:
        path = None
    if path is None and (store_blocks or ok_edges):
        rep.ok(rid, "%s CstData::close: a mark beyond the non-skip length raises non_skip_len (%d store, %d guarded edge)" % (inst.label, len(store_blocks), len(ok_edges)))
    else:
        rep.violation(rid, "CstData::close|no-bump", "%s: CstData::close can return without covering the closed node by non_skip_len when the node was opened "
                      "behind trailing skipped tokens (no comparison of the mark with non_skip_len / no store raising it on that path): an empty node created "
                      "after a skipped token becomes a sibling of its parent, and the parent ends with the skipped token" % inst.label,
                      site(cl, (0, 0)), flow.describe_path(cl, path) if path else None)


# ------------------------------------------------------------------------------------------------
# S21: the root node is the first node: parse_rule opens it before anything can push a token node
# ------------------------------------------------------------------------------------------------
def s21_root_first(inst, rep, rid="S21"):
    rep.rule(rid, "DOM: in parse_rule the call that opens the root node (Parser::open / CstData::open) dominates, and precedes, every call that "
                  "can push a token node or another rule node - init_skip, advance, advance_with_error, the rule closure: the tree is a flat "
                  "pre-order vector whose walk starts at the root's index, so leading skipped or lexer-error tokens pushed before the root is "
                  "opened lie outside every node and are lost from the tree")
    body = inst.fn("Parser::parse_rule")
    opens = []
    pushers = []
    for pt, name, decl, args, t in calls(body):
        tail = fn_tail(name)
        if tail in ("Parser::open", "CstData::open"):
            opens.append(pt)
        elif tail in ("Parser::init_skip", "Parser::advance", "Parser::advance_with_error", "CstData::advance") or (decl.endswith("Fn::call") and args and args[0][0] == "param"):
            pushers.append((pt, tail if not decl.endswith("Fn::call") else "rule closure"))
    if not opens:
        raise MissingAnchor("%s: parse_rule does not open a root node" % inst.label)
    if not any(w == "Parser::init_skip" for _, w in pushers) or not any(w == "rule closure" for _, w in pushers):
        raise MissingAnchor("%s: parse_rule calls neither init_skip nor its rule closure" % inst.label)

    def before(a, b):
        return (a[0] == b[0] and a[1] < b[1]) or (a[0] != b[0] and body.dominates(a[0], b[0]))
    for pt, what in pushers:
        if any(before(o, pt) for o in opens):
            rep.ok(rid, "%s parse_rule: %s behind the open of the root node" % (inst.label, what))
        else:
            rep.violation(rid, "parse_rule|%s|before-root-open" % what, "%s: parse_rule calls %s on a path on which the root node has not been opened yet: the token "
                          "nodes it pushes precede the root in the node vector and are not part of the returned tree" % (inst.label, what), site(body, pt))
