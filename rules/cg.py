"""Call graph over the analysed units (resolved callees from the driver) and panic-site enumeration."""
import re
from collections import defaultdict, deque
from .facts import callee_of, clean
from .skel import P, calls, site, fn_tail
from .prov import show, walk


class CallGraph:
    """nodes: body ids of the given units.  Edges: resolved call terminators; a closure/nested fn is reachable from the
    body that creates/contains it; an unresolved call of a trait method declared in the crate (generic `T: Trait`) goes
    to every impl of that method in the crate."""

    def __init__(self, units):
        self.units = units
        self.bodies = {}
        for u in units:
            for b in u.bodies.values():
                self.bodies.setdefault(b.id, b)
        self.succ = defaultdict(set)
        self.sites = defaultdict(list)   # (caller id, callee id) -> [pt]
        by_tail = defaultdict(list)
        for b in self.bodies.values():
            by_tail[b.name.rsplit("::", 1)[-1]].append(b)
        for b in self.bodies.values():
            if b.parent_id and b.parent_id in self.bodies:
                self.succ[b.parent_id].add(b.id)
            for bb, t in b.calls():
                co = callee_of(t)
                if co is None:
                    continue
                decl, res, fid, rid = co
                tgt = rid if rid in self.bodies else (fid if fid in self.bodies else None)
                if tgt:
                    self.succ[b.id].add(tgt)
                    self.sites[(b.id, tgt)].append((bb, len(b.blocks[bb]["s"])))
                elif rid is None and fid.split("::")[0] in {u.crate for u in units}:
                    # trait method without a body of its own: all impls
                    m = decl.rsplit("::", 1)
                    trait = m[0].rsplit("::", 1)[-1]
                    for c in by_tail.get(m[-1], []):
                        if (" as %s>" % trait) in c.name or (" as " in c.name and c.name.split(" as ")[1].split(">")[0].endswith(trait)):
                            self.succ[b.id].add(c.id)
                            self.sites[(b.id, c.id)].append((bb, len(b.blocks[bb]["s"])))

    def reach(self, roots, stop=None):
        """ids reachable from root ids; `stop(caller_body, callee_body, pts)` may veto an edge"""
        seen = set(roots)
        q = deque(roots)
        parent = {}
        while q:
            x = q.popleft()
            for y in self.succ.get(x, ()):
                if y in seen:
                    continue
                if stop and stop(self.bodies[x], self.bodies[y], self.sites.get((x, y), [])):
                    continue
                seen.add(y)
                parent[y] = x
                q.append(y)
        self.parent = parent
        return seen

    def path_to(self, x):
        out = [x]
        while out[-1] in getattr(self, "parent", {}):
            out.append(self.parent[out[-1]])
        return [self.bodies[i].name for i in reversed(out)]

    def find(self, suffix):
        return [b for b in self.bodies.values() if b.name == suffix or b.name.endswith("::" + suffix)]


# -------------------------------------------------------------------------------------------------
# panic sites
# -------------------------------------------------------------------------------------------------
PANIC_CALLS = [
    ("unwrap", re.compile(r"(Option|Result)(<[^>]*>)?::(unwrap|expect|unwrap_err|expect_err)$")),
    ("index", re.compile(r" as std::ops::Index(Mut)?<.*>>::index(_mut)?$|^core::str::traits::<impl std::ops::Index|^core::slice::index::<impl std::ops::Index")),
    ("panic", re.compile(r"^(core|std)::panicking::(panic|panic_fmt|panic_display|panic_explicit|unreachable_display|begin_panic|assert_failed|panic_nounwind)|^core::panicking::|rt::begin_panic|^std::rt::panic_fmt")),
    ("vecop", re.compile(r"^std::vec::Vec::(remove|swap_remove|insert|split_off|drain|swap)$|^std::string::String::(remove|insert|insert_str|replace_range|split_off|drain)$"
                         r"|^core::slice::<impl \[T\]>::(split_at|split_at_mut|copy_from_slice|swap|chunks|windows|rotate_left|rotate_right)$"
                         r"|^core::str::<impl str>::(split_at)$|^std::iter::Iterator::step_by$|^std::thread::JoinHandle::join$")),
]


def classify_call(name, decl):
    for k, rx in PANIC_CALLS:
        if rx.search(name) or rx.search(decl):
            return k
    return None


def panic_sites(body):
    """yield dict(kind, pt, callee/name, args (prov exprs), msg) for every potentially panicking terminator of `body`.
    kinds: unwrap, index, panic, vecop, assert:<msg kind>.  Sites inside macro expansions other than the panic family
    (e.g. logos derive output) carry `mac`."""
    pr = P(body)
    for pt, name, decl, args, t in calls(body):
        k = classify_call(name, decl)
        if k:
            yield {"kind": k, "pt": pt, "callee": name, "args": args, "t": t, "mac": _mac(t)}
    for b in sorted(body.reachable()):
        t = body.blocks[b]["t"]
        if t["t"] == "assert":
            yield {"kind": "assert:" + str(t.get("msg")), "pt": (b, len(body.blocks[b]["s"])), "callee": "assert", "args": (pr.operand(t["cond"]),), "t": t, "mac": _mac(t)}


def _mac(t):
    x = t.get("sp", {}).get("x")
    return x


# -------------------------------------------------------------------------------------------------
# stable keys for panic sites (no line numbers): function | kind | callee tail | provenance signature
# -------------------------------------------------------------------------------------------------
def _sig(e, depth=0):
    t = e[0]
    if depth > 3:
        return "_"
    if t == "call":
        m = re.match(r"^<(.+) as (.+)>::(\w+)$", e[1])
        if m:
            # trait method on a concrete type: keep the type (TokenDecl::name and RuleDecl::name must differ)
            ty = re.sub(r"<[^<>]*>", "", re.sub(r"<[^<>]*>", "", m.group(1))).replace("&", "").replace("mut ", "").strip()
            n = "%s::%s" % (ty.split("::")[-1], m.group(3))
        else:
            n = re.sub(r"<[^<>]*>", "", e[1])
            n = re.sub(r"<[^<>]*>", "", n)
            n = "::".join(n.split("::")[-2:])
        return "%s(%s)" % (n, _sig(e[2][0], depth + 1) if e[2] else "")
    if t == "field":
        return "%s.%s" % (e[2].rsplit("::", 1)[-1], e[3])
    if t == "tfield":
        return "%s.%d" % (_sig(e[1], depth), e[2])
    if t == "variant":
        return "%s as %s" % (_sig(e[1], depth), e[3])
    if t in ("param",):
        return "param%d" % e[1]
    if t == "local":
        return "local"
    if t == "const":
        return "const:%s" % (str(e[2])[:40],)
    if t == "bin":
        return "%s(%s,%s)" % (e[1], _sig(e[2], depth + 1), _sig(e[3], depth + 1))
    if t in ("un", "cast"):
        return "%s(%s)" % (e[1] if t == "un" else "cast", _sig(e[2], depth + 1))
    if t == "ovf":
        return "ovf(%s)" % _sig(e[1], depth)
    if t == "index":
        return "%s[%s]" % (_sig(e[1], depth + 1), _sig(e[2], depth + 1))
    if t == "discr":
        return "discr(%s)" % _sig(e[1], depth + 1)
    if t == "agg":
        k = e[1]
        return "%s{..}" % (k[0] if k[0] != "adt" else "%s::%s" % (k[1].rsplit("::", 1)[-1], k[2]))
    return t


def site_key(body, s):
    callee = re.sub(r"<[^<>]*>", "", s["callee"])
    callee = re.sub(r"<[^<>]*>", "", callee)
    callee = "::".join(callee.split("::")[-2:]) if s["kind"] != "index" else "Index"
    if s["kind"] == "index":
        c = s["callee"]
        callee = "Index:" + ("HashMap" if "HashMap" in c else "Vec" if "Vec<" in c else "str" if "for str" in c or "str::traits" in c else
                              "slice" if "slice" in c else "other")
    a = s["args"]
    sig = _sig(a[0]) if a else ""
    if s["kind"] == "index" and len(a) > 1:
        sig += " @ " + _sig(a[1])
    return "%s|%s|%s|%s" % (body.name, s["kind"], callee, sig)
