"""ZONE/PANIC: every potentially panicking construct that can execute on arbitrary (possibly erroneous, client-controlled)
input is either covered by a generic justification or listed in the audited table below with the invariant that makes it
safe.  A site that is neither is reported: it is a new panic path on arbitrary input (C12, C17, C20), including every site
of a function that used to run only behind an error gate and no longer does.

Keys carry no positions: function | kind | callee | provenance signature of the operand (cg.site_key).
"""
import re
from collections import Counter, defaultdict
from . import cg, zones, lrules, flow
from .skel import P, calls, site, fn_tail
from .prov import show, walk
from .facts import MissingAnchor

TRUSTED_MACROS = {"arg": "clap's arg! macro: assertions about the literal argument specification, evaluated on constants",
                  "vec": "alloc's vec! macro: pointer alignment/null assertions of Box::new_uninit (debug-only UB checks)"}

# (regex over the key, properties it serves, reason [, guard])
# guard: ("dom", callee-regex, truth) = the site must be edge-dominated by that call's result being `truth`;
#        ("callers-dom", callee-regex, truth) = every call site of the enclosing function must be.
TABLE = [
    ('^frontend::ast::NodeMarker::number\\|unwrap\\|Option::unwrap\\|Option::map\\(Option::and_then\\(NodeMarker::value', 'C12',
     "a NodeMarker node is closed only in the arm of rule_postfix entered with current == NodeMarker (checked by SHAPE), so the token child exists; its text matches `<[0-9]+` and contains '<'", 1),
    ('^frontend::ast::Predicate::is_true::\\{closure#0\\}\\|index\\|Index:str\\|.* @ RangeFrom', 'C12',
     "text of a Predicate token (`\\?([0-9]+|t)`): first character is the ASCII '?', so [1..] is a boundary inside the text", 1),
    ('^<codespan_reporting::diagnostic::Diagnostic<\\(\\)> as frontend::diag::LanguageErrors>::(lowercase_token|uppercase_rule)\\|unwrap\\|Option::unwrap\\|Chars::next\\(str::chars\\(param2\\)\\)$', 'C12',
     'every caller passes a name for which `name.starts_with(..)` just returned true, hence non-empty', 2, ('callers-dom', 'str::starts_with$', True)),
    ('^frontend::lexer::check_string\\|assert:overflow:Sub\\|assert\\|ovf\\(SubWithOverflow\\(Add\\(Range\\.start,Option\\.0\\.0\\),const:1\\)\\)$', 'C12',
     'i is the char_indices offset of the character after a backslash, so i >= 1', 1),
    ('^frontend::lexer::check_string\\|panic\\|panicking::panic\\|const:internal error: entered unreachable', 'C12',
     'a Str token ends with an unescaped quote (parse_string consumes the character after every backslash), so a backslash is never last', 1),
    ('^frontend::lexer::tokenize\\|index\\|Index:str\\|Lexer::source\\(Logos::lexer\\(param1\\)\\) @ Range::clone\\(Option\\.0\\.1\\)$', 'C12',
     'span produced by logos for this very source: in range and on character boundaries', 1),
    ('^frontend::sema::GeneralCheck::check_regex\\|index\\|Index:str\\|Option\\.0\\.0 @ RangeFrom', 'C12',
     'text of a Predicate/Action/Assertion/NodeRename token: the token regexes start with the ASCII characters ? # ! @', 4),
    ('^frontend::sema::RecursiveBranches::new\\|assert:overflow:Sub\\|assert\\|ovf\\(SubWithOverflow\\(Mul\\(Vec::len\\(param1\\),const:2\\),Mul\\(Option\\.0\\.0,const:2\\)\\)\\)$', 'C12',
     'i < branches.len() (enumerate), so 2*len - 2*i >= 2', 2),
    ('^compile\\|unwrap\\|Result::unwrap\\|term::emit_to_write_style', 'C12',
     'fails on an I/O error of stderr (assumed writable) or on a label span outside the text / off a character boundary, which SPAN excludes', 1),
    ('^build\\|unwrap\\|Result::unwrap\\|env::var\\(const:OUT_DIR\\)$', 'C12',
     'build-script entry point: cargo always sets OUT_DIR', 1),
    ('^@::Cst::match_token::\\{closure#0\\}\\|index\\|Index:str\\|.*source @ Range::clone\\(param\\d\\)$', 'C12,C03',
     'span of an existing token node (lexer span)', 1),
    ('^@::Cst::span_text\\|index\\|Index:Vec\\|CstData\\.spans @ ::from\\(param2\\)$', 'C12,C03',
     'span index of a token node = token_count at its push < tokens.len() = spans.len() (S1 and one span per token); the phantom end token of known finding P1 is the exception', 1),
    ('^@::Cst::span_text\\|index\\|Index:str\\|Cst\\.source @ Range::clone\\(Vec::index\\(CstData\\.spans\\)\\)$', 'C12,C03',
     'lexer span of this source', 1),
    ('^@::Cst as std::fmt::Display>::fmt::rec\\|index\\|Index:Vec\\|CstData\\.spans @ ::from\\(Node\\.1\\)$', 'C12,C03',
     'span index of a token node (see Cst::span_text); reached through `{cst}` in verbose mode, which the call graph cannot see (std formatting)', 1),
    ('^@::Cst as std::fmt::Display>::fmt::rec\\|index\\|Index:str\\|Cst\\.source @ Range::clone\\(Vec::index\\(CstData\\.spans\\)\\)$', 'C12,C03',
     'lexer span of this source', 1),
    ('^@::CstIndex as std::convert::From<usize>>::from\\|panic\\|panicking::panic\\|const:assertion failed: b6 == 0 && b7 == 0$', 'C12,C03',
     'debug-only assertion that an index fits into 48 bits: node and token counts are bounded by the number of input bytes, far below 2^48', 1),
    ('^@::CstData::children\\|index\\|Index:Vec\\|CstData\\.nodes @ (NodeRef\\.0|Range::Range\\{\\.\\.\\})$', 'C12,C03',
     "NodeRef of an existing node (NODEREF: built only by the child iterator, ROOT, or from a mark); the range ends at the node's stored extent", 2),
    ('^@::CstData::close_root\\|assert:overflow:Sub\\|assert\\|', 'C12,C03',
     'the root mark is the index of a pushed node, so nodes.len() - 1 >= mark', 2),
    ('^@::CstData::close_root\\|index\\|Index:Vec\\|CstData\\.nodes @ MarkOpened\\.0$', 'C12,C03',
     'MarkOpened is only built by open/open_before from the index of the node they create (S4)', 1),
    ('^@::CstData::close\\|assert:overflow:Sub\\|assert\\|', 'C12,C03',
     'non_skip_len >= 1 after the root open that dominates every close; the two differences are each computed on the side of a comparison that makes them non-negative', 3),
    ('^@::CstData::close\\|index\\|Index:Vec\\|CstData\\.nodes @ MarkOpened\\.0$', 'C12,C03',
     'MarkOpened is only built by open/open_before from the index of the node they create (S4)', 1),
    ('^@::CstData::(get|match_rule|match_token|span)\\|index\\|Index:Vec\\|CstData\\.nodes @ NodeRef\\.0$', 'C12,C03',
     'NodeRef of an existing node (NODEREF)', 4),
    ('^@::CstData::match_token\\|index\\|Index:Vec\\|CstData\\.spans @ ::from\\(Node\\.1\\)$', 'C12,C03',
     'span index of a token node (see Cst::span_text)', 1),
    ('^@::CstData::open_before\\|vecop\\|Vec::insert\\|CstData\\.nodes$', 'C12,C03',
     'mark index <= nodes.len(): marks are indices of existing nodes or the current length', 1),
    ('^@::CstData::span::\\{closure#0\\}\\|index\\|Index:Vec\\|CstData\\.spans @ param\\d$', 'C12,C03',
     'span index taken from a token node', 1),
    ('^@::CstData::span\\|index\\|Index:Vec\\|CstData\\.nodes @ (RangeInclusive::new\\(Add\\(NodeRef\\.0,const:1\\)\\)|RangeTo::RangeTo\\{\\.\\.\\})$', 'C12,C03',
     "ranges bounded by the node's own index and its stored extent, both inside the vector", 3),
    ('^@::CstData::span\\|index\\|Index:Vec\\|CstData\\.spans @ (::from\\(Node\\.1\\)|Option\\.0)$', 'C12,C03',
     'span index taken from a token node', 3),
    ('^@::Parser::parse_rule\\|index\\|Index:Vec\\|Parser\\.tokens @ Parser\\.pos$', 'C12,C03',
     'inside the loop guarded by pos < tokens.len()', 1),
    ('^backend::format::gen_alt\\|index\\|Index:Vec\\|Iterator::collect\\(.*\\) @ const:[01]$', 'C17',
     'dominated by regexes.len() > 1', 2, ('dom', 'Vec::len$|Vec<T, A>::len$', 'gt1')),
    ('^backend::format::gen_alt\\|index\\|Index:str\\|Cst::source\\(param1\\) @ Range::Range\\{\\.\\.\\}$', 'C17',
     "end of the first operand's span .. start of the second's: sibling spans are ordered token boundaries of this source; needs two distinct operands (regexes.len() > 1), with one operand the range would be reversed", 1, ('dom', 'Vec::len$|Vec<T, A>::len$', 'gt1')),
    ('^backend::format::(gen_file|gen_node)\\|assert:overflow:Sub\\|assert\\|ovf\\(SubWithOverflow\\(str::len\\(Cst::span_text\\(param1\\)\\),const:1\\)\\)$', 'C17',
     'text of a LineComment/DocComment token: the token regex `//[^\\n]*\\n` makes it non-empty', 2),
    ('^backend::format::(gen_file|gen_node)\\|index\\|Index:str\\|Cst::span_text\\(param1\\) @ RangeTo', 'C17',
     "LineComment/DocComment text ends with the one-byte '\\n', so len-1 is a character boundary", 2),
    ('^backend::format::gen_node\\|panic\\|panicking::panic\\|const:internal error: entered unreachable', 'C17',
     'arms for Rule::Decl, Rule::Postfix and Rule::Regex: the self-hosted parser never closes a node of these kinds (checked by SHAPE-KINDS)', 3),
    ('^backend::format::space_before_comment\\|index\\|Index:str\\|Cst::source\\(param1\\) @ RangeTo', 'C17',
     'start of a token span of this source', 1),
    ('^ide::completion::add_reference_items\\|unwrap\\|Option::unwrap\\|RuleDecl::name\\(Option\\.0\\)$', 'C20',
     'RuleDecl::name: rule_rule_decl is entered only with current == Id and consumes it first (checked by SHAPE); the TokenDecl twin is not total and is tested', 1),
    ('^ide::hover::hover\\|unwrap\\|Option::unwrap\\|str::strip_prefix\\(', 'C20',
     'text of a DocComment token (`///[^\\n]*\\n`) starts with ///', 1),
    ('^ide::lookup::lookup_parser_impl_definition::\\{closure#1\\}\\|assert:overflow:Sub\\|assert\\|ovf\\(SubWithOverflow\\(Location\\.(column|line)_number,const:1\\)\\)$', 'C20',
     'codespan Location is one-based', 2),
    ('^ide::Cache::\\w+\\|panic\\|panicking::panic\\|const:assertion failed: !analyzer\\.handle\\.is_fi', 'C20',
     'holds iff the analysis thread never exits on its own: it returns only on Cancel (RR) and has no unaudited panic site (this table)', 6),
    ('^ide::Cache::\\w+\\|unwrap\\|Result::unwrap\\|Sender::send\\(Analyzer\\.req_tx\\)$', 'C20',
     'fails only if the analysis thread has exited; see the assertion above', 7),
    ('^ide::Cache::invalidate\\|(unwrap\\|Result::unwrap\\|JoinHandle::join\\(Analyzer\\.handle\\)|vecop\\|JoinHandle::join\\|Analyzer\\.handle)$', 'C20',
     'join fails only if the analysis thread panicked; see the assertion above', 2),
    ('^ide::analyze\\|unwrap\\|Result::unwrap\\|Sender::send\\(param4\\)$', 'C20',
     'fails only if the Cache dropped the receiver, which happens in invalidate after Cancel was sent and the thread joined', 6),
    ('^ide::analyze\\|unwrap\\|(Result::unwrap\\|Url::to_file_path\\(param1\\)|Option::unwrap\\|Path::(parent|to_str)\\()', 'C20',
     'ASSUMPTION: documents are identified by file: URIs with a UTF-8 path below the root (stated in the evidence)', 3),
    ('^ide::compat::position_to_offset\\|index\\|Index:str\\|SimpleFile::source\\(param1\\) @ Range::clone\\(Result\\.0\\)$', 'C20',
     "line range returned by the same file's line_range: line starts follow '\\n' bytes, in range and on boundaries", 1),
    ('^ide::compat::span_to_range\\|unwrap\\|Result::unwrap\\|codespan_lsp::byte_span_to_range\\(param1\\)$', 'C20',
     'fails for a span outside the text or off a character boundary; every span reaching it is a lexer/tree span (SPAN)', 1),
    ('^main_loop\\|panic\\|rt::panic_fmt\\|', 'C20',
     'ASSUMPTION: well-formed protocol messages (JsonError = parameters that do not deserialize for a known method)', 8),
    ('^main_loop\\|unwrap\\|Result::unwrap\\|serde_json::from_value\\(param2\\)$', 'C20',
     'ASSUMPTION: well-formed initialize parameters', 1),
    ('^(main_loop|main|<lsp_types::notification::Did(Open|Change)TextDocument as NotificationHandler>::handle)\\|unwrap\\|Result::unwrap\\|serde_json::to_value\\(', 'C20',
     'serialising lsp_types values (string-keyed maps only) cannot fail', 8),
    ('^main\\|unwrap\\|Option::unwrap\\|ArgMatches::get_one\\(', 'C19',
     'INPUT is a required argument and output has a default value (clap guarantees presence)', 2),
]

# each entry: (regex over the position-free site key, properties served, invariant that makes the site safe, number of sites the entry was
# audited for [, dominance guard]); an entry never silently covers more sites than were read
MAXCOUNT = [e[3] for e in TABLE]
assert len(MAXCOUNT) == len(TABLE)

SKELETON_PREFIX = re.compile(r"^(?:[\w:]*?::)?parser::(Cst|CstData|CstChildren|Parser|NodeRef|Node|Rule)\b")


def normalise_key(body, key):
    """skeleton functions are keyed independently of the instance they are generated into"""
    if body.from_generated():
        fn = key.split("|", 1)[0]
        m = re.match(r"^(.*?::)?parser::(.*)$", fn) if "::parser::" in fn or fn.startswith("parser::") else None
        if m:
            return "@::" + m.group(2) + "|" + key.split("|", 1)[1]
    return key


def roots_all(G):
    roots = []
    for n in ("compile", "build", "ide::analyze"):
        roots += [b.id for b in G.find(n) if b.name == n]
    roots += [b.id for b in G.bodies.values() if b.name.startswith("ide::Cache::")]
    roots += [b.id for b in G.bodies.values() if b.crate in ("lelwel_ls", "llw") and b.name == "main"]
    # implementations of std traits (Display, From, PartialEq, Ord, Iterator, ..) are called from inside std (format!, `.into()`,
    # collections), which the call graph does not see: they count as reachable on arbitrary input
    roots += [b.id for b in G.bodies.values() if re.match(r"^<.* as (std|core|alloc)::", b.name)]
    return roots


_Z = {}


def zones_of(ctx):
    if "z" not in _Z:
        units = lrules.lelwel_units(ctx)
        G = cg.CallGraph(units)
        r = roots_all(G)
        for need in ("compile", "ide::analyze"):
            if not any(G.bodies[i].name == need for i in r):
                raise MissingAnchor("root function %s not found" % need)
        _Z["z"] = zones.Zones(units, r)
    return _Z["z"]


FILE_PROP = [
    (re.compile(r"src/backend/format\.rs$"), "C17"),
    (re.compile(r"src/ide/|src/bin/lelwel-ls\.rs$"), "C20"),
    (re.compile(r"src/bin/llw\.rs$"), "C19"),
    (re.compile(r"src/frontend/|src/lib\.rs$|generated\.rs$"), "C12"),
]


def prop_of_file(f):
    for rx, p in FILE_PROP:
        if rx.search(f):
            return p
    return "C12"


def _sub_guarded(body, s):
    """`x - k` (k a constant) where x is a local or parameter, a comparison on a dominating edge gives x >= k, and x is not
    assigned between that edge and the subtraction"""
    sub = None
    for x in walk(s["args"][0]):
        if x[0] == "bin" and x[1] == "Sub":
            sub = x
            break
    if sub is None:
        for pt, it in flow.points(body, s["pt"][0]):
            if isinstance(it, dict) and "rv" in it:
                e = P(body).rvalue(it["rv"])
                for x in walk(e):
                    if x[0] == "bin" and x[1] in ("Sub", "SubWithOverflow"):
                        sub = x
    if sub is None:
        return False
    x, c = sub[2], sub[3]
    if not (c[0] == "const" and isinstance(c[2], int) and c[2] >= 0 and x[0] in ("local", "param")):
        return False
    k = c[2]

    def cval(e):
        return e[2] if e[0] == "const" and isinstance(e[2], int) else None
    for b in sorted(body.reachable()):
        t = body.term(b)
        if t["t"] != "switch" or [v for v, _ in t["arms"]] != [0]:
            continue
        e = P(body).operand(t["d"])
        for truth, tgt in ((False, t["arms"][0][1]), (True, t["else"])):
            if tgt == t["else"] and truth is False:
                continue
            if not flow.edge_dominates(body, (b, tgt), s["pt"][0]):
                continue
            facts = []
            lrules.atoms(e, truth, facts)
            good = False
            for a, tr in facts:
                if a[0] != "bin":
                    continue
                op, l, r = a[1], a[2], a[3]
                if not tr:
                    op = {"Eq": "Ne", "Ne": "Eq", "Lt": "Ge", "Ge": "Lt", "Gt": "Le", "Le": "Gt"}.get(op)
                if l == x and cval(r) is not None:
                    m = cval(r)
                    good |= (op == "Ne" and m == 0 and k <= 1) or (op == "Gt" and m >= k - 1) or (op == "Ge" and m >= k)
                if r == x and cval(l) is not None:
                    m = cval(l)
                    good |= (op == "Ne" and m == 0 and k <= 1) or (op == "Lt" and m >= k - 1) or (op == "Le" and m >= k)
            if not good:
                continue
            if x[0] == "param" and not body.defs().get(x[1]):
                return True
            # no assignment to x between the edge and the subtraction
            defs = {(d[0], d[1]) for d in body.defs().get(x[1], [])}
            hit = flow.find_path(body, (tgt, -1), lambda q, it: q in defs and q != s["pt"] and not (q[0] == s["pt"][0] and q[1] >= s["pt"][1] - 1),
                                 blocks_point=lambda q, it: q == s["pt"])
            if hit is None:
                return True
            # an assignment is reachable from the edge before the site only if it can then still reach the site without passing the guard again
            last = hit[-1]
            back = flow.find_path(body, last, lambda q, it: q == s["pt"], edge_ok=lambda s_, t_, l_: not (s_ == b))
            if back is None:
                return True
    return False


def _generic(body, s):
    k = s["kind"]
    if k in ("assert:nullptr", "assert:misaligned"):
        return "debug-only pointer checks of safe std constructors"
    if k in ("assert:overflow:Add", "assert:overflow:Mul"):
        return "addition/multiplication of in-memory lengths, offsets and counters (bounded by the size of the text) cannot overflow usize/u32"
    if k == "assert:overflow:Sub" and _sub_guarded(body, s):
        return "subtraction of a constant from a local that a dominating comparison proves large enough (and that is not reassigned in between)"
    if s["mac"] and s["mac"][-1] in TRUSTED_MACROS:
        return TRUSTED_MACROS[s["mac"][-1]]
    if body.file.endswith("lexer.rs") and s["mac"] and any("Logos" in m or "logos" in m for m in s["mac"]):
        return "logos derive output (trusted dependency)"
    return None


def _check_guard(z, body, s, guard):
    kind, rx, truth = guard
    rx = re.compile(rx)
    unit = z.unit_of[body.id]

    def dominated(b, blk):
        f = lrules.gates(b, blk)
        for e, tr in f:
            if truth == "gt1":
                if e[0] == "bin" and e[1] == "Gt" and e[2][0] == "call" and rx.search(e[2][1]) and e[3][0] == "const" and e[3][2] >= 1 and tr is True:
                    return True
            elif e[0] == "call" and (rx.search(e[1]) or rx.search(e[3])) and tr is truth:
                return True
        return False

    if kind == "dom":
        return dominated(body, s["pt"][0])
    if kind == "callers-dom":
        G = z.G
        callers = [(x, pts) for (x, y), pts in G.sites.items() if y == body.id]
        if not callers:
            return False
        return all(dominated(G.bodies[x], pt[0]) for x, pts in callers for pt in pts)
    return False


def evaluate(ctx, rep, props, rid="PANIC"):
    """check every zone-U panic site that belongs to one of `props` (by file); returns the counts"""
    rep.rule(rid, "ZONE/PANIC: every unwrap/expect, panicking index or slice, panic!/unreachable!/assert!, subtraction overflow check and "
                  "panicking Vec/String operation in a function reachable from compile, the language-server entry points or the analysis "
                  "thread WITHOUT passing an error gate is either generically justified or an audited table entry with its invariant "
                  "(and, where stated, a dominance guard that is re-checked); any other site is a new panic path on arbitrary input")
    z = zones_of(ctx)
    table = [(re.compile(rx), set(p.split(",")), reason, (g[0] if g else None)) for rx, p, reason, _n, *g in TABLE]
    used = Counter()
    nsites = 0
    nfun = 0
    new_by_fn = defaultdict(list)
    for bid in sorted(z.U, key=lambda i: z.G.bodies[i].name):
        b = z.G.bodies[bid]
        fprop = prop_of_file(b.file)
        sites = list(cg.panic_sites(b))
        if not sites:
            continue
        nfun += 1
        for s in sites:
            if _generic(b, s):
                continue
            key = normalise_key(b, cg.site_key(b, s))
            hit = None
            for i, (rx, ps, reason, guard) in enumerate(table):
                if rx.search(key):
                    hit = (i, ps, reason, guard)
                    break
            owner = fprop if hit is None else (sorted(hit[1] & set(props))[0] if hit[1] & set(props) else sorted(hit[1])[0])
            if hit is None:
                if fprop in props:
                    new_by_fn[(b.name, s["kind"], key)].append((b, s))
                continue
            if not (hit[1] & set(props)):
                continue
            nsites += 1
            used[hit[0]] += 1
            if used[hit[0]] > MAXCOUNT[hit[0]]:
                rep.violation(rid, "count|" + key, "%s: more sites match the audited entry `%s` than were audited (%d > %d): the additional %s site needs its own "
                              "justification" % (b.name, hit[2][:80], used[hit[0]], MAXCOUNT[hit[0]], s["kind"]), site(b, s["pt"]))
                continue
            if hit[3] and not _check_guard(z, b, s, hit[3]):
                rep.violation(rid, "guard|" + key, "%s: the table justifies this %s site by a dominating guard (%s) that no longer dominates it: %s"
                              % (b.name, s["kind"], hit[2], key), site(b, s["pt"]))
            else:
                rep.ok(rid, "%s  [%s]" % (key[:150], hit[2][:110]))
    for (fn, kind, key), lst in sorted(new_by_fn.items()):
        b, s = lst[0]
        why = "reachable on arbitrary input via " + " -> ".join(z.path(b.id)[-4:])
        rep.violation(rid, "unaudited|" + key, "%s: %s site `%s` is reachable on arbitrary (possibly erroneous) input and is not covered by any "
                      "audited invariant (%d occurrence(s)); %s. operand: %s"
                      % (fn, kind, fn_tail(s["callee"], 2), len(lst), why, show(s["args"][0], 200) if s["args"] else ""), site(b, s["pt"]))
    rep.count("functions in the ungated zone with panic sites", nfun)
    rep.count("ungated-zone functions", len(z.U))
    rep.count("functions reachable only behind an error gate", len(z.Gz))
    rep.extra.setdefault("gated_call_edges", sorted(set("%s -> %s" % e for e in z.gated_edges)))
    return nsites


# -------------------------------------------------------------------------------------------------
# SPAN: label spans are lexer/tree spans, never byte arithmetic (C12, and C20 through span_to_range)
# -------------------------------------------------------------------------------------------------
SPAN_ARITH_TABLE = {
    "frontend::lexer::check_string|Range{Sub(Add(Range.start,Option.0.0),const:1),Add(Add(Range.start,Option.0.0),methods::len_utf8(Option.0.1))}":
        "the backslash before offset i is one byte, and the end adds the UTF-8 length of the escaped character itself: both bounds are "
        "character boundaries inside the string token",
}


def _has_arith(e):
    for x in walk(e):
        if x[0] in ("bin", "ovf"):
            return True
        if x[0] == "agg" and x[1][0] == "adt" and x[1][2] == "Range" and "ops::range" in x[1][1] :
            return True
    return False


def _full_sig(e):
    return cg._sig(e, -6)


def span_rule(ctx, rep, rid="SPAN"):
    rep.rule(rid, "PROV: the range handed to every Label::primary/secondary is, through at most three levels of parameters, a value returned "
                  "by the lexer or the tree (logos span, Cst::span, AstNode::span, an accessor's span, Parser::span) or a clone of one; a "
                  "range assembled from byte arithmetic is accepted only as an audited table entry whose exact provenance is frozen")
    lib = ctx.lelwel()
    z = zones_of(ctx)
    G = z.G
    is_label = lambda n: bool(re.search(r"Label(<[^>]*>)?::(primary|secondary)$", n))
    n = 0

    def check_arg(body, pt, e, depth, chain):
        nonlocal n
        if _has_arith(e):
            rng = [x for x in walk(e) if x[0] == "agg" and x[1][0] == "adt" and x[1][2] == "Range" and "ops::range" in x[1][1]]
            sig = "%s|Range{%s}" % (body.name, ",".join(_full_sig(o) for o in rng[0][2])) if rng else "%s|%s" % (body.name, _full_sig(e))
            if sig in SPAN_ARITH_TABLE:
                rep.ok(rid, "%s  [%s]" % (sig, SPAN_ARITH_TABLE[sig][:100]))
            else:
                rep.violation(rid, "arith|" + sig, "%s builds a diagnostic label span by byte arithmetic (%s)%s: nothing guarantees that it lies inside the "
                              "text on character boundaries, so rendering the diagnostic (or converting it for the language client) can fail"
                              % (body.name, show(e, 200), (" and passes it on through " + " -> ".join(chain)) if chain else ""), site(body, pt))
            return
        params = [x for x in walk(e) if x[0] == "param"]
        if params and depth < 3:
            callers = [(x, pts) for (x, y), pts in G.sites.items() if y == body.id]
            for x, pts in callers:
                cb = G.bodies[x]
                pr = P(cb)
                for cpt in pts:
                    t = flow.item_at(cb, cpt)
                    for p in params:
                        idx = p[1] - 1
                        if idx < len(t["args"]):
                            check_arg(cb, cpt, pr.operand(t["args"][idx]), depth + 1, [body.name.split("::")[-1]] + chain)
        n += 1

    nlab = 0
    for b in lrules.user_bodies(lib):
        for pt, name, decl, args, t in calls(b):
            if is_label(name) or is_label(decl):
                nlab += 1
                check_arg(b, pt, args[1], 0, [])
                rep.ok(rid, "%s: %s(range = %s)" % (b.name.split("::")[-1], fn_tail(name, 2), show(args[1], 60)))
    rep.count("Label constructions", nlab)
    rep.count("span arguments followed through callers", n)
    rep.floor(rid, 40, "label constructions")


# -------------------------------------------------------------------------------------------------
# GATE: the passes that assume an error-free grammar stay behind the error gate
# -------------------------------------------------------------------------------------------------
def gate_rule(ctx, rep, rid="ZONE"):
    rep.rule(rid, "ZONE: the analysis passes and back ends that index the analysis maps unconditionally (they contain panic sites that are only "
                  "safe for a grammar without errors) are reachable only through a call edge dominated by the 'no error diagnostic' test; "
                  "SemanticPass::run and compile each contain such a gate")
    z = zones_of(ctx)
    gated = sorted(set(z.gated_edges))
    callers = {c for c, _ in gated}
    for need in ("frontend::sema::SemanticPass::run", "compile"):
        if need in callers:
            rep.ok(rid, "%s gates: %s" % (need, ", ".join(fn_tail(t, 2) for c, t in gated if c == need)))
        else:
            rep.violation(rid, "no-gate|" + need, "%s no longer contains a call that is dominated by the 'no error diagnostic' test: everything it "
                          "calls now runs on grammars with errors" % need)
    n = 0
    for bid in z.Gz:
        b = z.G.bodies[bid]
        if any(True for s in cg.panic_sites(b) if not _generic(b, s)):
            n += 1
    rep.count("functions with panic sites that run only behind an error gate", n)
    if n < 20:
        rep.violation(rid, "floor:ZONE", "only %d functions with panic sites are behind an error gate (25 on the audited tree): a gate disappeared" % n)
    else:
        rep.ok(rid, "%d functions with unaudited panic sites are reachable only behind an error gate" % n)


# -------------------------------------------------------------------------------------------------
# NTH: positional access to the operands of a concatenation behind the error gate
# -------------------------------------------------------------------------------------------------
NTH_TABLE = {
    "frontend::sema::OperatorValidator::run": ("ok", "a LeftRight branch has two distinct self references (first and last operand that is not a predicate, rename, elision "
                                                      "or action), so the operand after the left one exists"),
    "frontend::sema::LL1Validator::skip_first": ("finding", "a left-recursive branch may consist of the self reference alone once predicates are filtered out"),
}


def nth_rule(ctx, rep, rid="NTH"):
    rep.rule(rid, "PANIC (gated zone, narrow): behind the error gate the validators address operands of a concatenation by position "
                  "(`operands().nth(k).unwrap()`); every such site is audited for the shape of branch that reaches it. Only this class of gated-zone "
                  "sites is audited; the map-index sites behind the gate are kept behind it by ZONE but not audited one by one")
    z = zones_of(ctx)
    n = 0
    for bid in sorted(z.Gz, key=lambda i: z.G.bodies[i].name):
        b = z.G.bodies[bid]
        for s in cg.panic_sites(b):
            if s["kind"] != "unwrap" or not s["args"]:
                continue
            if not any(x[0] == "call" and x[1].endswith("Iterator::nth") for x in walk(s["args"][0])):
                continue
            n += 1
            ent = NTH_TABLE.get(b.name)
            if ent is None:
                rep.violation(rid, "unaudited|%s|nth-unwrap" % b.name, "%s unwraps `nth` on an operand iterator behind the error gate; no audited invariant says that "
                              "every grammar without errors has that many operands there" % b.name, site(b, s["pt"]))
            elif ent[0] == "finding":
                rep.violation(rid, "%s|nth-unwrap" % b.name, "%s: %s" % (b.name, ent[1]), site(b, s["pt"]))
            else:
                rep.ok(rid, "%s  [%s]" % (b.name, ent[1][:100]))
    if n < 2:
        raise MissingAnchor("NTH: expected the positional operand accesses of the validators, found %d" % n)


# -------------------------------------------------------------------------------------------------
# INITSIB: analysis-map entries for one key are created together (gated zone; feeds the unconditional Index reads)
# -------------------------------------------------------------------------------------------------
def _strip_loc(e):
    if not isinstance(e, tuple):
        return e
    if e and e[0] == "call":
        return ("call", e[1], tuple(_strip_loc(a) for a in e[2]), e[3], "")
    return tuple(_strip_loc(x) for x in e)


def initsib_rule(ctx, rep, rid="INITSIB"):
    rep.rule(rid, "SIBLINGS: inside one function of the semantic pass, `entry(k)` initialisations of different analysis maps with the same key "
                  "expression are control-equivalent (each dominates or post-dominates the other): the validators later read these maps with the "
                  "panicking Index for every key of the family, so an entry that is created under an extra condition is missing for some "
                  "error-free grammar and the analysis panics")
    lib = ctx.lelwel()
    n = 0
    for b in lrules.user_bodies(lib):
        if not b.name.startswith("frontend::sema::"):
            continue
        groups = defaultdict(list)
        for pt, name, decl, args, t in calls(b):
            if name.endswith("HashMap::entry") or name.endswith("BTreeMap::entry"):
                fields = [x[3] for x in walk(args[0]) if x[0] == "field"]
                if not fields:
                    continue
                groups[_strip_loc(args[1])].append((pt, fields[-1]))
        for key, lst in groups.items():
            if len({m for _, m in lst}) < 2:
                continue
            n += 1
            base = lst[0]
            bad = None
            for pt, m in lst[1:]:
                if m == base[1]:
                    continue
                a, c2 = base[0][0], pt[0]
                eq = (b.dominates(a, c2) and b.postdominates(c2, a)) or (b.dominates(c2, a) and b.postdominates(a, c2)) or a == c2
                if not eq:
                    bad = (pt, m)
            fn = b.name.split("frontend::sema::")[-1]
            if bad:
                rep.violation(rid, "%s|%s|%s" % (fn, base[1], bad[1]), "%s: the entries of `%s` and `%s` for the same key (%s) are not created under the same "
                              "condition; the maps are read with `[..]` for every such key behind the error gate, so for some error-free grammar the "
                              "key is missing and the analysis panics" % (fn, base[1], bad[1], show(key, 90)),
                              site(b, bad[0]))
            else:
                rep.ok(rid, "%s: entries of %s for one key are created together" % (fn, sorted({m for _, m in lst})))
    rep.count("sibling initialisation groups", n)
    if n < 1:
        raise MissingAnchor("INITSIB: no sibling map initialisations found in frontend::sema")
