"""Zones: which functions run on arbitrary (possibly erroneous) input and which only behind an error gate.

Gate = a CFG edge established by `!diags.iter().any(|d| d.severity == Severity::Error)` (or `all(!=)`), recognised
semantically (lrules.noerr_fact: the fold inline, or a helper function whose summary is that fold).  A call edge is *gated* when every call site of it in the caller is dominated by
such an edge.  Zone U = everything reachable from the roots without crossing a gated call edge; zone G = reachable only
through one."""
from . import lrules
from .cg import CallGraph


def gated_block(unit, body, block):
    return lrules.noerr_fact(unit, lrules.gates(body, block))


class Zones:
    def __init__(self, units, root_ids):
        self.G = CallGraph(units)
        self.unit_of = {}
        for u in units:
            for b in u.bodies.values():
                self.unit_of.setdefault(b.id, u)
        G = self.G
        self.gated_edges = []

        def stop(caller, callee, pts):
            if not pts:
                return False
            u = self.unit_of[caller.id]
            if all(gated_block(u, caller, pt[0]) for pt in pts):
                self.gated_edges.append((caller.name, callee.name))
                return True
            return False

        self.U = G.reach(root_ids, stop)
        self.parent_U = dict(G.parent)
        self.ALL = G.reach(root_ids)
        self.Gz = self.ALL - self.U

    def path(self, bid):
        out = [bid]
        while out[-1] in self.parent_U:
            out.append(self.parent_U[out[-1]])
        return [self.G.bodies[i].name for i in reversed(out)]
