"""Rules on the hand-written part of the front end that C13 (and C12) rest on:
LEXBAL   parse_string advances the lexer by exactly the bytes of every character it takes from the iterator;
         tokenize pushes exactly one token and one span per lexer item;
PEEK     hand-written callbacks of the self-hosted parser look ahead only through Parser::peek / peek_left (which filter
         skipped tokens), never through the raw token vector;
CG       the precedence chain of the regex rules in the self-hosted parser is the documented one."""
import re
from .facts import MissingAnchor, clean
from .skel import P, calls, site, fn_tail, stores, short
from .prov import show, walk
from . import flow, lrules


def _derives(e, call_e):
    for x in walk(e):
        if x[0] == "call" and x[1] == call_e[1] and x[4] == call_e[4]:
            return True
    return False


def _base_var(body, operand):
    """name of the user variable an operand refers to, following single-definition reference temporaries"""
    pl = operand.get("m") or operand.get("c")
    seen = 0
    while pl is not None and seen < 8:
        seen += 1
        n = body.varname(pl["l"])
        if n:
            return n
        ds = [d for d in body.defs().get(pl["l"], []) if d[2] == "assign"]
        if len(ds) != 1:
            return None
        rv = ds[0][3]["rv"]
        if rv["r"] in ("ref", "rawptr"):
            pl = rv["p"]
        elif rv["r"] == "use":
            pl = rv["o"].get("m") or rv["o"].get("c")
        else:
            return None
    return None


def lexbal_rule(ctx, rep, rid="LEXBAL", esc=True):
    rep.rule(rid, "BAL: in lexer::parse_string every character taken from the remainder iterator is followed, on every path to the next character or "
                  "to an Ok return, by exactly one Lexer::bump of that character's len_utf8 (or of 1 on an edge where the character equals an ASCII "
                  "literal); no other bump amount occurs (a wrong amount desynchronises token spans from the text, or panics inside logos off a "
                  "character boundary). In lexer::tokenize every iteration pushes exactly one token and one span")
    lib = ctx.lelwel()
    b = lib.one("frontend::lexer::parse_string")
    pr = P(b)
    nexts = [(pt, pr.call_expr(t)) for pt, name, decl, args, t in calls(b) if name.endswith("Chars as std::iter::Iterator>::next")]
    if not nexts:
        raise MissingAnchor("parse_string: no Chars::next call")
    next_blocks = {pt[0] for pt, _ in nexts}
    for pt, call_e in nexts:
        t = flow.item_at(b, pt)
        sw = t["to"]
        st = b.blocks[sw]["t"]
        some_tgt = None
        if st["t"] == "switch":
            for v, tg in st["arms"]:
                if v == 1:
                    some_tgt = tg
        if some_tgt is None:
            rep.violation(rid, "parse_string|shape", "parse_string: unrecognised shape after Chars::next (fail closed)", site(b, pt))
            continue
        # DFS with state (count, ascii_known, ret)
        bad = []
        seen = set()
        stack = [(some_tgt, 0, False, None)]
        ends = []
        while stack:
            blk, cnt, ascii_known, ret = stack.pop()
            if (blk, cnt, ascii_known, ret) in seen:
                continue
            seen.add((blk, cnt, ascii_known, ret))
            if blk in next_blocks and blk != pt[0] or (blk == pt[0] and (blk, cnt) != (some_tgt, 0) and blk in next_blocks):
                ends.append(("next", cnt, blk))
                continue
            for p, it in flow.points(b, blk):
                if isinstance(it, dict) and "rv" in it and it["a"] == {"l": 0, "p": []}:
                    e = pr.rvalue(it["rv"])
                    if e[0] == "agg" and e[1][0] == "adt":
                        ret = e[1][2]
                if isinstance(it, dict) and it.get("t") == "call":
                    ce = pr.call_expr(it)
                    if ce[1].endswith("logos::Lexer::bump") or ce[1].endswith("Lexer<'source, Token>::bump"):
                        amt = ce[2][1]
                        if amt[0] == "call" and amt[1].endswith("len_utf8") and _derives(amt, call_e):
                            cnt += 1
                        elif amt == ("const", "usize", 1) and ascii_known:
                            cnt += 1
                        else:
                            bad.append((p, show(amt, 80)))
                            cnt += 1
            tt = b.blocks[blk]["t"]
            if tt["t"] == "return":
                ends.append(("return", cnt, ret))
                continue
            for tgt, lab in b.succ_edges(blk):
                ak = ascii_known
                if tt["t"] == "switch":
                    e = pr.operand(tt["d"])
                    if _derives(e, call_e) and e[0] != "discr" and lab[0] == "v" and isinstance(lab[1], int) and lab[1] < 128:
                        ak = True
                stack.append((tgt, cnt, ak, ret))
        for p, amt in bad:
            rep.violation(rid, "parse_string|bump-amount", "parse_string advances the lexer by `%s`, which is neither the UTF-8 length of the character just "
                          "taken nor 1 for a character known to be an ASCII literal: for a multi-byte character the token span ends inside it "
                          "(logos panics) or the lexer loses track of where the literal ends" % amt, site(b, p))
        wrong = [e for e in ends if (e[0] == "next" and e[1] != 1) or (e[0] == "return" and e[2] == "Ok" and e[1] != 1)]
        if wrong and not bad:
            rep.violation(rid, "parse_string|bump-count", "parse_string: a character taken from the iterator is followed by %s bumps on some path to %s (exactly one is "
                          "required): the lexer position and the iterator disagree from there on, so the literal is terminated at the wrong place"
                          % (sorted({e[1] for e in wrong}), "the next character" if wrong[0][0] == "next" else "the Ok return"), site(b, pt))
        if not wrong and not bad:
            rep.ok(rid, "parse_string: character taken at %s is bumped exactly once with its own length on every path" % site(b, pt).rsplit("/", 1)[-1])
    # ESC: the arm for a backslash takes the following character unconditionally (escape pairs: `\\\\` must not leave a
    # backslash that escapes the closing quote)
    esc_ok = None
    for blk in (sorted(b.reachable()) if esc else []):
        tt = b.blocks[blk]["t"]
        if tt["t"] != "switch":
            continue
        e = pr.operand(tt["d"])
        if e[0] == "discr" or not any(_derives(e, ce) for _, ce in nexts):
            continue
        for v, tg in tt["arms"]:
            if v == 92:
                # every path from the arm to the next loop iteration / return passes another Chars::next call
                hdrs = {pt0[0] for pt0, ce in nexts if _derives(e, ce)}
                others = next_blocks - hdrs
                p2 = flow.find_path(b, (tg, -1), lambda p, it: (p[0] in hdrs and p[1] == 0) or flow.is_return(p, it),
                                    blocks_point=lambda p, it: p[0] in others and p[1] == 0)
                if tg in others:
                    p2 = None
                esc_ok = p2 is None
                if esc_ok:
                    rep.ok(rid, "parse_string: after a backslash the following character is always taken (escape pairs)")
                else:
                    rep.violation(rid, "parse_string|escape-pair", "parse_string: in the arm for a backslash the following character is not taken on every path: "
                                  "an escaped backslash (`'\\\\\\\\'`) is then read as a backslash followed by an escape of the closing quote, and the literal "
                                  "does not end where it was written", site(b, (tg, 0)), flow.describe_path(b, p2))
    if esc and esc_ok is None:
        rep.violation(rid, "parse_string|no-escape-arm", "parse_string has no arm for the backslash character any more (fail closed)", site(b, (0, 0)))
    # tokenize
    tk = lib.one("frontend::lexer::tokenize")
    tp = P(tk)
    loops = [lp for lp in tk.loops()]
    if not loops:
        raise MissingAnchor("tokenize has no loop")
    lp = max(loops, key=lambda l: len(l["body"]))

    def pushes(which):
        def f(p, it):
            if isinstance(it, dict) and it.get("t") == "call":
                ce = tp.call_expr(it)
                if ce[1].endswith("Vec::push") or ce[3].endswith("Vec::push"):
                    return _base_var(tk, it["args"][0]) == which
            return False
        return f
    from .lsp import _counts_on_paths
    # from the loop header's Some edge back to the header
    hdr = lp["header"]
    # the two vectors are the components of the returned tuple (no dependence on variable names)
    vecs = []
    for p0, it in flow.all_points(tk):
        if isinstance(it, dict) and "rv" in it and it["a"] == {"l": 0, "p": []} and it["rv"]["r"] == "agg" and len(it["rv"]["ops"]) == 2:
            vecs = [_base_var(tk, o) for o in it["rv"]["ops"]]
    if len(vecs) != 2 or None in vecs:
        raise MissingAnchor("tokenize: the returned (tokens, spans) tuple was not recognised")
    for which in vecs:
        # find the block after the next() switch: approximate by counting over all paths header -> header
        r = _counts_on_paths(tk, hdr, set(), pushes(which))
        # paths that return pass through the None edge with count 0; paths back to header are cut by `seen`
        res = set()
        seen = set()
        st = [(s, 0) for s in tk.succ(hdr)]
        while st:
            bb, c = st.pop()
            if (bb, c) in seen:
                continue
            seen.add((bb, c))
            if bb == hdr:
                res.add(c)
                continue
            for p, it in flow.points(tk, bb):
                if pushes(which)(p, it):
                    c += 1
            for s in tk.succ(bb):
                st.append((s, c))
        if res == {1}:
            rep.ok(rid, "tokenize: exactly one push on `%s` per lexer item" % which)
        else:
            rep.violation(rid, "tokenize|%s" % which, "tokenize pushes %s elements on `%s` per lexer item on some path (exactly one is required): tokens and spans "
                          "would no longer correspond index by index" % (sorted(res), which), site(tk, (hdr, 0)))


def peek_rule(ctx, rep, rid="PEEK"):
    rep.rule(rid, "WHO: the hand-written callbacks of the self-hosted parser (predicate_*, in src/frontend/parser.rs) read the token stream only through "
                  "Parser::peek / Parser::peek_left, whose iterators are filtered by is_skipped (S16): a predicate that inspects Parser.tokens or "
                  "Parser.pos directly sees whitespace and comments, so a grammar's meaning would depend on its layout")
    insts = [i for i in ctx.instances(with_corpus=False) if i.unit.crate == "lelwel" and i.prefix == "frontend::parser"]
    if not insts:
        raise MissingAnchor("self-hosted parser instance not found")
    inst = insts[0]
    n = 0
    for name, b in sorted(inst.user.items()):
        if not name.startswith("predicate_"):
            continue
        n += 1
        pr = P(b)
        raw = []
        for pt, it in flow.all_points(b):
            exprs = []
            if isinstance(it, dict) and "rv" in it:
                exprs.append(pr.rvalue(it["rv"]))
            elif isinstance(it, dict) and it.get("t") == "call":
                exprs.extend(pr.call_expr(it)[2])
            for e in exprs:
                for x in walk(e):
                    if x[0] == "field" and short(x[2]) == "Parser" and x[3] in ("tokens", "pos") or (x[0] == "field" and short(x[2]) == "CstData" and x[3] in ("spans", "nodes")):
                        raw.append((pt, x[3]))
        peeks = [nm for pt, nm, decl, args, t in calls(b) if nm.endswith("Parser::peek") or nm.endswith("Parser::peek_left")]
        if raw:
            rep.violation(rid, "%s|raw-%s" % (name, raw[0][1]), "frontend::parser::%s reads Parser.%s directly instead of going through peek/peek_left: skipped "
                          "tokens (whitespace, comments) between the inspected tokens change the predicate's answer" % (name, raw[0][1]), site(b, raw[0][0]))
        else:
            rep.ok(rid, "%s: %d peek call(s), no raw access to the token vector" % (name, len(peeks)))
    if n == 0:
        raise MissingAnchor("no predicate callbacks found in frontend::parser")


# the README's precedence statement: alternation < ordered choice < concatenation < postfix
CHAIN = ["regex", "alternation", "ordered_choice", "concat", "postfix"]
OPERATOR = {"alternation": {"Or"}, "ordered_choice": {"Slash"}, "concat": set()}


def cg_rule(ctx, rep, rid="CG"):
    rep.rule(rid, "CG: in the self-hosted parser the regex rules call each other along the chain regex -> alternation -> ordered_choice -> concat -> "
                  "postfix (README: postfix binds tighter than concatenation, concatenation tighter than ordered choice, ordered choice tighter "
                  "than alternation); the only call back up is postfix -> regex (inside brackets); between operands alternation consumes only "
                  "'|', ordered_choice only '/', concat nothing")
    insts = [i for i in ctx.instances(with_corpus=False) if i.unit.crate == "lelwel" and i.prefix == "frontend::parser"]
    if not insts:
        raise MissingAnchor("self-hosted parser instance not found")
    inst = insts[0]
    from .pratt import token_names, _token_states
    names = token_names(inst)
    callees = {}
    consumed = {}
    for r in CHAIN:
        fn = "rule_" + r
        if fn not in inst.rules:
            raise MissingAnchor("frontend::parser has no %s" % fn)
        bodies = [inst.rules[fn]] + inst.nested.get(fn, [])
        cs = set()
        toks = set()
        for b in bodies:
            pr = P(b)
            st = _token_states(b, pr, names)
            for pt, name, decl, args, t in calls(b):
                m = re.search(r"Parser::rule_(\w+)$", name)
                if m and "::rec" not in name:
                    cs.add(m.group(1))
                if name.endswith("Parser::advance") and len(args) > 1 and args[1] == ("const", "bool", 0) or (name.endswith("Parser::advance") and len(args) > 1 and args[1][0] == "const" and args[1][2] in (0, False)):
                    s = st.get(pt[0])
                    if s is not None and len(s) < len(names):
                        toks |= {names[v] for v in s}
                    else:
                        toks.add("<any>")
        callees[r] = cs - {r}
        consumed[r] = toks
    for i, r in enumerate(CHAIN[:-1]):
        want = {CHAIN[i + 1]}
        if callees[r] == want:
            rep.ok(rid, "%s calls only %s" % (r, CHAIN[i + 1]))
        else:
            rep.violation(rid, "calls|%s" % r, "frontend::parser::rule_%s calls %s; the documented precedence requires it to call exactly %s (operator "
                          "nesting of the typed view would differ from the written grammar)" % (r, sorted(callees[r]), sorted(want)))
    if "regex" in callees["postfix"] and not (callees["postfix"] - {"regex"}) & set(CHAIN):
        rep.ok(rid, "postfix calls back only regex (bracketed sub-expression)")
    else:
        rep.violation(rid, "calls|postfix", "frontend::parser::rule_postfix calls %s: the only call back into the chain must be regex" % sorted(callees["postfix"]))
    for r, want in OPERATOR.items():
        if consumed[r] == want:
            rep.ok(rid, "%s consumes %s between operands" % (r, sorted(want) or "nothing"))
        else:
            rep.violation(rid, "consumes|%s" % r, "frontend::parser::rule_%s consumes %s, expected %s: the operator levels are not the documented ones"
                          % (r, sorted(consumed[r]), sorted(want)))
