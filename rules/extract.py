"""Runs the mirfacts driver over /repo (and the corpus harness) and caches the fact files by a
content hash of everything that influences them."""
import hashlib, os, subprocess, sys, json, shutil, fcntl, time, glob

VERIF = os.path.dirname(os.path.dirname(os.path.abspath(__file__)))
REPO = os.environ.get("VERIF_REPO", "/repo")
CACHE = os.environ.get("VERIF_CACHE") or os.path.join(VERIF, ".cache")
EVIDENCE = os.environ.get("VERIF_EVIDENCE") or os.path.join(VERIF, "evidence")
DRIVER = os.path.join(VERIF, "mirfacts", "target", "release", "mirfacts")
CORPUS = os.path.join(VERIF, "corpus")

FEATURE_SETS = {
    "cli_lsp": ["--features", "cli,lsp"],
    "none": [],
    "cli": ["--features", "cli"],
    "lsp": ["--features", "lsp"],
    "wasm": ["--features", "wasm"],
}


def _hash_tree(h, root, skip_dirs=("target", ".git", ".cache", "__pycache__")):
    for dp, dn, fn in os.walk(root):
        dn[:] = sorted(d for d in dn if d not in skip_dirs)
        for f in sorted(fn):
            p = os.path.join(dp, f)
            if os.path.islink(p) or not os.path.isfile(p):
                continue
            h.update(os.path.relpath(p, root).encode())
            h.update(b"\0")
            with open(p, "rb") as fh:
                h.update(fh.read())
            h.update(b"\0")


def tree_hash():
    h = hashlib.sha256()
    _hash_tree(h, REPO)
    _hash_tree(h, os.path.join(VERIF, "mirfacts", "src"))
    if os.path.isdir(CORPUS):
        _hash_tree(h, CORPUS)
    return h.hexdigest()[:20]


def sysroot():
    return subprocess.check_output(["rustc", "+nightly", "--print", "sysroot"], text=True).strip()


def ensure_driver():
    if not os.path.exists(DRIVER):
        r = subprocess.run(["cargo", "build", "--release", "--offline"], cwd=os.path.join(VERIF, "mirfacts"),
                           env=dict(os.environ, CARGO_NET_OFFLINE="true"), capture_output=True, text=True)
        if r.returncode != 0:
            sys.stdout.write(r.stdout + r.stderr)
            fail("cannot build the mirfacts driver")


def fail(msg):
    print("ERROR: extraction failed: " + msg)
    sys.exit(2)


def _members(manifest_dir):
    r = subprocess.run(["cargo", "metadata", "--no-deps", "--offline", "--format-version", "1"], cwd=manifest_dir,
                       capture_output=True, text=True, env=dict(os.environ, CARGO_NET_OFFLINE="true"))
    if r.returncode != 0:
        fail("cargo metadata: " + r.stderr[-2000:])
    md = json.loads(r.stdout)
    return [p["name"] for p in md["packages"]]


def _drop_fingerprints(target, names):
    for prof in ("debug",):
        fp = os.path.join(target, prof, ".fingerprint")
        if not os.path.isdir(fp):
            continue
        for d in os.listdir(fp):
            base = d.rsplit("-", 1)[0]
            if base in names:
                shutil.rmtree(os.path.join(fp, d), ignore_errors=True)


def _cargo_env(facts_dir, roots, extra_rustflags=""):
    env = dict(os.environ)
    env["CARGO_NET_OFFLINE"] = "true"
    env["MIRFACTS_DIR"] = facts_dir
    env["MIRFACTS_ROOTS"] = roots
    env["LD_LIBRARY_PATH"] = sysroot() + "/lib" + (":" + env["LD_LIBRARY_PATH"] if env.get("LD_LIBRARY_PATH") else "")
    env["RUSTFLAGS"] = ("-Zmir-opt-level=0 -Awarnings " + extra_rustflags).strip()
    env["RUSTC_WORKSPACE_WRAPPER"] = DRIVER
    env["CARGO_TARGET_DIR"] = os.path.join(CACHE, "target")
    env.pop("RUSTC_WRAPPER", None)
    return env


def run_cargo(cwd, facts_dir, roots, args, extra_rustflags="", keep_going=False):
    os.makedirs(facts_dir, exist_ok=True)
    env = _cargo_env(facts_dir, roots, extra_rustflags)
    names = set(_members(cwd))
    _drop_fingerprints(env["CARGO_TARGET_DIR"], names)
    cmd = ["cargo", "+nightly", "check", "--offline"] + args
    if keep_going:
        cmd.append("--keep-going")
    r = subprocess.run(cmd, cwd=cwd, env=env, capture_output=True, text=True)
    return r


class Lock:
    def __enter__(self):
        os.makedirs(CACHE, exist_ok=True)
        self.f = open(os.path.join(CACHE, "lock"), "w")
        fcntl.flock(self.f, fcntl.LOCK_EX)
        return self

    def __exit__(self, *a):
        fcntl.flock(self.f, fcntl.LOCK_UN)
        self.f.close()


def _prune(keep):
    root = os.path.join(CACHE, "facts")
    if not os.path.isdir(root):
        return
    ds = sorted((os.path.getmtime(os.path.join(root, d)), d) for d in os.listdir(root))
    for _, d in ds[:-3]:
        if d != keep:
            shutil.rmtree(os.path.join(root, d), ignore_errors=True)


def workspace_facts(feature_set="cli_lsp", log=None):
    """directory with the fact files of /repo's workspace in the given feature configuration"""
    ensure_driver()
    with Lock():
        h = tree_hash()
        d = os.path.join(CACHE, "facts", h, "ws-" + feature_set)
        ok = os.path.join(d, "OK")
        if os.path.exists(ok):
            return d
        shutil.rmtree(d, ignore_errors=True)
        t0 = time.time()
        r = run_cargo(REPO, d, REPO, ["--workspace"] + FEATURE_SETS[feature_set])
        if r.returncode != 0:
            sys.stdout.write(r.stderr[-6000:])
            fail("/repo does not build (cargo check, features %s)" % feature_set)
        if not glob.glob(os.path.join(d, "lelwel-n-*.jsonl")):
            fail("no fact file for crate lelwel was produced (driver skipped?)")
        with open(ok, "w") as f:
            f.write("%.1f\n" % (time.time() - t0))
        _prune(h)
        return d


def corpus_facts(tier="quick"):
    """(facts directory, report dict) for the corpus harness; see corpus/README.md"""
    from . import corpus as C
    ensure_driver()
    with Lock():
        h = tree_hash()
        d = os.path.join(CACHE, "facts", h, "corpus-" + tier)
        ok = os.path.join(d, "OK")
        if os.path.exists(ok):
            return d, json.load(open(os.path.join(d, "report.json")))
        shutil.rmtree(d, ignore_errors=True)
        os.makedirs(d)
        gdir = None
        if tier == "thorough":
            # quick corpus + the committed generated corpus, merged into one directory for the harness's build script
            gdir = os.path.join(CACHE, "grammars-thorough")
            shutil.rmtree(gdir, ignore_errors=True)
            os.makedirs(gdir)
            for src in (os.path.join(CORPUS, "grammars"), os.path.join(CORPUS, "thorough")):
                for f in sorted(os.listdir(src)):
                    if f.endswith(".llw"):
                        shutil.copyfile(os.path.join(src, f), os.path.join(gdir, f))
        rep = C.build(d, tier, grammars_dir=gdir)
        json.dump(rep, open(os.path.join(d, "report.json"), "w"), indent=1)
        open(ok, "w").write("ok\n")
        return d, rep
