"""L-rules: rules on lelwel's own source (library, llw, lelwel-ls)."""
import re
from .facts import MissingAnchor
from .prov import show, walk
from . import flow
from .skel import P, calls, site, fn_tail

FS_MUTATORS = re.compile(
    r"^std::fs::(write|remove_file|remove_dir|remove_dir_all|rename|copy|create_dir|create_dir_all|set_permissions|hard_link|soft_link)$"
    r"|^std::fs::File::(create|create_new|set_len|set_permissions|options)$"
    r"|^std::fs::OpenOptions::(open|new)$"
    r"|^std::os::unix::fs::symlink$")


def lelwel_units(ctx):
    """library (featured build), llw and lelwel-ls binaries"""
    lib = ctx.lelwel()
    out = [lib]
    for u in ctx.units():
        if u.crate in ("llw", "lelwel_ls") and u is not lib:
            out.append(u)
    return out


def user_bodies(u):
    for b in u.bodies.values():
        if b.file.endswith("generated.rs"):
            continue
        yield b


def atoms(e, truth, out):
    """decompose a branch condition into atomic facts (expr, bool)"""
    if e[0] == "un" and e[1] == "Not":
        atoms(e[2], not truth, out)
    elif e[0] == "bin" and e[1] == "BitAnd" and truth:
        atoms(e[2], True, out); atoms(e[3], True, out)
    elif e[0] == "bin" and e[1] == "BitOr" and not truth:
        atoms(e[2], False, out); atoms(e[3], False, out)
    else:
        out.append((e, truth))


def gates(body, block):
    """atomic facts established by every switch edge that dominates `block` (edge dominance)"""
    pr = P(body)
    out = []
    for b in sorted(body.reachable()):
        t = body.blocks[b]["t"]
        if t["t"] != "switch":
            continue
        e = pr.operand(t["d"])
        arms = t["arms"]
        tg = {}
        for v, tgt in arms:
            tg.setdefault(tgt, []).append(v)
        for tgt, vs in tg.items():
            if tgt != t["else"] and flow.edge_dominates(body, (b, tgt), block) and vs == [0]:
                atoms(e, False, out)
        if t["else"] not in tg and [v for v, _ in arms] == [0] and flow.edge_dominates(body, (b, t["else"]), block):
            atoms(e, True, out)
    return out


def has_param(facts, name, truth):
    return any(e[0] == "param" and e[2] == name and tr == truth for e, tr in facts)


def has_call(facts, tail, truth, pred=None):
    for e, tr in facts:
        if e[0] == "call" and tr == truth and (e[1].endswith(tail) or e[3].endswith(tail)) and (pred is None or pred(e)):
            return True
    return False


def call_sites(units, pred):
    for u in units:
        for b in user_bodies(u):
            for pt, name, decl, args, t in calls(b):
                if pred(name) or pred(decl):
                    yield u, b, pt, name, args, t


def error_fold_closure(unit, e):
    """the `any` call's closure compares a severity with Severity::Error"""
    for x in walk(e):
        if x[0] == "closure" or (x[0] == "agg" and x[1][0] == "closure"):
            cid = x[1] if x[0] == "closure" else x[1][1]
            b = unit.bodies.get(cid)
            if b is None:
                continue
            for pt, name, decl, args, t in calls(b):
                if name.endswith("PartialEq::eq") or decl.endswith("PartialEq::eq") or "Severity" in name:
                    if any("Severity" in show(a) for a in args) or "Severity" in name:
                        return True
    return False


def _sev_eq_error(e):
    """`x.severity == Severity::Error` as a call expression"""
    return e[0] == "call" and re.search(r"PartialEq(<[^>]*>)?>?::eq$", e[1]) is not None and ("Severity" in e[1] or any("Severity" in show(a, 200) for a in e[2]))


_FOLD_MEMO = {}


def is_error_fold_fn(unit, name):
    """the user function `name` returns true exactly when some diagnostic it is given has severity Error: its return value is
    `iter().any(|d| d.severity == Error)`, or every `true` that can reach the return value is assigned behind the true edge of
    such a comparison and `false` is the only other value"""
    key = (id(unit), name)
    if key in _FOLD_MEMO:
        return _FOLD_MEMO[key]
    _FOLD_MEMO[key] = False
    cands = [b for b in unit.bodies.values() if b.name == name or name.endswith("::" + b.name) or b.name.endswith("::" + name)]
    if len(cands) != 1:
        return False
    b = cands[0]
    if b.local_ty(0) != "bool":
        return False
    pr = P(b)
    ok = None
    # direct call result
    for d in b.defs().get(0, []):
        if d[2] == "call":
            e = pr.call_expr(d[3])
            ok = bool(re.search(r"Iterator>?::any$", e[1] + "|" + e[3]) or e[3].endswith("::any")) and error_fold_closure(unit, e)
    if ok is None:
        # constants flowing into the return place, directly or through one bool variable
        targets = {0}
        for d in b.defs().get(0, []):
            if d[2] == "assign":
                e = pr.rvalue(d[3]["rv"])
                if e[0] == "local":
                    targets.add(e[1])
        seen_true = seen_false = False
        ok = True
        for l in targets:
            for d in b.defs().get(l, []):
                if d[2] != "assign":
                    ok = False
                    continue
                e = pr.rvalue(d[3]["rv"])
                if e[0] == "local" and e[1] in targets:
                    continue
                if e == ("const", "bool", 0):
                    seen_false = True
                elif e == ("const", "bool", 1):
                    seen_true = True
                    if not any(_sev_eq_error(a) and tr is True for a, tr in gates(b, d[0])):
                        ok = False
                elif e[0] == "call" and error_fold_closure(unit, e):
                    seen_true = seen_false = True
                else:
                    ok = False
        ok = ok and seen_true and seen_false
    _FOLD_MEMO[key] = bool(ok)
    return bool(ok)


def noerr_fact(unit, facts):
    """the facts establish `no diagnostic has severity Error`"""
    if has_call(facts, "Iterator>::any", False, lambda e: error_fold_closure(unit, e)) or has_call(facts, "Iterator>::all", True, lambda e: error_fold_closure(unit, e)):
        return True
    for e, tr in facts:
        if e[0] == "call" and tr is False and is_error_fold_fn(unit, e[1]):
            return True
    return False


# ------------------------------------------------------------------------------------------------
# C19 / C11: file-system effects and their gates
# ------------------------------------------------------------------------------------------------
FX_TABLE = {
    ("compile", "std::fs::write"): "W1 format in place",
    ("backend::graphviz::GraphvizOutput::run", "std::fs::File::create"): "W2 parser.gv",
    ("backend::rust::RustOutput::run", "std::fs::File::create"): "W3 generated.rs",
    ("backend::rust::RustOutput::output_parser", "std::fs::File::create"): "W4 parser.rs skeleton",
    ("backend::rust::RustOutput::output_lexer", "std::fs::File::create"): "W5 lexer.rs skeleton",
}


def fx_who(ctx, rep, rid="FX"):
    rep.rule(rid, "WHO: the file-system mutating std functions called anywhere in lelwel's library and binaries are exactly the "
                  "five of the effect table (fs::write in compile; File::create in GraphvizOutput::run, RustOutput::run, "
                  "output_parser, output_lexer); a new mutating call site is reported")
    units = lelwel_units(ctx)
    found = set()
    for u, b, pt, name, args, t in call_sites(units, lambda n: bool(FS_MUTATORS.match(n))):
        key = (b.name, name)
        if key in FX_TABLE:
            found.add(key)
            rep.ok(rid, "%s calls %s (%s)" % (b.name, name, FX_TABLE[key]))
        else:
            rep.violation(rid, "%s|%s|unlisted-fs-effect" % (b.name, name),
                          "%s calls %s, a file-system mutation that is not in the effect table (W1..W5): the tool would write something it does not promise"
                          % (b.name, name), site(b, pt))
    for key in FX_TABLE:
        if key not in found:
            rep.violation(rid, "anchor:%s|%s" % key, "effect table entry %s -> %s no longer matches any call site (fail closed)" % key)
    rep.count("functions scanned for file-system effects", sum(1 for u in units for _ in user_bodies(u)))


class ChainFacts:
    """Gate facts that hold on *every* call chain from lelwel::compile (or from a function nobody calls) to a program point:
    the facts of the dominating edges in the function itself, united with the intersection over all call sites of that function of
    the facts at the call site.  Facts are tokens: "NOERR" (no diagnostic has severity Error, evaluated after SemanticPass::run),
    ("P", function, parameter index, truth) and ("NOEXIST", file name).  A parameter of a helper is mapped to the parameter of
    `compile` that every call site passes for it."""

    ROOT = "compile"

    def __init__(self, units):
        self.units = units
        self.by_name = {}
        self.sites = {}
        for u in units:
            for b in user_bodies(u):
                self.by_name.setdefault(b.name, []).append((u, b))
        for u in units:
            for b in user_bodies(u):
                for pt, name, decl, args, t in calls(b):
                    tgt = self._target(u, name)
                    if tgt:
                        self.sites.setdefault(tgt.name, []).append((u, b, pt, args))
        self._entry = {}
        self._pe = {}

    def _target(self, u, name):
        for cand in (name, name.split("::", 1)[-1] if name.startswith("lelwel::") else None):
            if cand and cand in self.by_name:
                for uu, bb in self.by_name[cand]:
                    if uu is u or uu.crate == "lelwel":
                        return bb
        return None

    def param_equiv(self, fname, idx, truth, depth=0):
        """token for `parameter idx of fname has value truth`, lifted to compile's frame when every call site passes the same thing"""
        if fname == self.ROOT or depth > 6:
            return ("P", fname, idx, truth)
        key = (fname, idx, truth)
        if key in self._pe:
            return self._pe[key]
        self._pe[key] = ("P", fname, idx, truth)
        res = None
        for u, c, pt, args in self.sites.get(fname, []):
            if idx - 1 >= len(args):
                res = ("P", fname, idx, truth)
                break
            e, tr = args[idx - 1], truth
            while e[0] == "un" and e[1] == "Not":
                e, tr = e[2], not tr
            tok = self.param_equiv(c.name, e[1], tr, depth + 1) if e[0] == "param" else ("P", fname, idx, truth)
            if res is None:
                res = tok
            elif res != tok:
                res = ("P", fname, idx, truth)
                break
        self._pe[key] = res or ("P", fname, idx, truth)
        return self._pe[key]

    def local(self, u, body, block):
        f = gates(body, block)
        toks = set()
        if noerr_fact(u, f) and _dominated_by_call(body, block, "SemanticPass::run"):
            toks.add("NOERR")
        elif noerr_fact(u, f):
            toks.add("NOERR-before-sema")
        for e, tr in f:
            if e[0] == "param":
                toks.add(self.param_equiv(body.name, e[1], tr))
            if e[0] == "call" and e[1].endswith("Path::exists") and tr is False:
                for x in walk(e):
                    if x[0] == "const" and x[1] == "str":
                        toks.add(("NOEXIST", x[2]))
        return toks

    def entry(self, fname, stack=()):
        if fname == self.ROOT:
            return set()
        if fname in self._entry:
            return self._entry[fname]
        if fname in stack:
            return None  # top element: a cycle contributes nothing
        res = None
        for u, c, pt, args in self.sites.get(fname, []):
            up = self.entry(c.name, stack + (fname,))
            here = self.local(u, c, pt[0]) | (up or set()) if up is not None else None
            if here is None:
                continue
            res = here if res is None else (res & here)
        if res is None:
            res = set()
        if not stack:
            self._entry[fname] = res
        return res

    def at(self, u, body, block):
        return self.local(u, body, block) | self.entry(body.name)

    def param_token(self, pname, truth):
        for u, b in self.by_name.get(self.ROOT, []):
            if u.crate == "lelwel":
                for l in range(1, b.argc + 1):
                    if b.varname(l) == pname:
                        return ("P", self.ROOT, l, truth)
        raise MissingAnchor("lelwel::compile has no parameter named %s" % pname)


def _tokfmt(toks):
    out = []
    for t in sorted(toks, key=str):
        out.append(t if isinstance(t, str) else ("%s.#%d=%s" % (t[1], t[2], t[3]) if t[0] == "P" else "!exists(%s)" % t[1]))
    return ", ".join(out) or "nothing"


def fx_gates(ctx, rep, rid="GATE", check_mode=True):
    rep.rule(rid, "DOM (edge dominance, over every call chain from lelwel::compile): every file-system effect is dominated by its documented "
                  "gate: W1 under _format and not check; W2 and W3 under 'no diagnostic has severity Error' (evaluated after "
                  "SemanticPass::run; the fold may sit in a helper whose summary is that fold) and not check; W4/W5 additionally under not "
                  "exists(parser.rs) and not exists(lexer.rs).  A gate may be established in the function itself or at every call site of "
                  "it, transitively")
    units = lelwel_units(ctx)
    cf = ChainFacts(units)
    nocheck = cf.param_token("check", False)
    fmt = cf.param_token("_format", True)
    need = {
        "W1": ({fmt, nocheck} if check_mode else set(), "`_format && !check`", "check mode could modify the grammar file"),
        "W2": ({"NOERR"} | ({nocheck} if check_mode else set()), "the 'no error diagnostic' test after SemanticPass::run" + (" and `!check`" if check_mode else ""), "a rejected grammar could still produce output, or check mode create a file"),
        "W3": ({"NOERR"} | ({nocheck} if check_mode else set()), "the 'no error diagnostic' test after SemanticPass::run" + (" and `!check`" if check_mode else ""), "a rejected grammar could still produce output, or check mode create a file"),
        "W4": ({"NOERR", ("NOEXIST", "parser.rs"), ("NOEXIST", "lexer.rs")} | ({nocheck} if check_mode else set()), "no error, `!check`, `!parser_path.exists() && !lexer_path.exists()`", "a hand-edited file could be overwritten"),
        "W5": ({"NOERR", ("NOEXIST", "parser.rs"), ("NOEXIST", "lexer.rs")} | ({nocheck} if check_mode else set()), "no error, `!check`, `!parser_path.exists() && !lexer_path.exists()`", "a hand-edited file could be overwritten"),
    }
    n = 0
    for u, b, pt, name, args, t in call_sites(units, lambda n_: bool(FS_MUTATORS.match(n_))):
        w = FX_TABLE.get((b.name, name), "")[:2]
        if w not in need:
            continue  # an unlisted effect is reported by FX
        if not check_mode and w in ("W1", "W4", "W5"):
            continue
        n += 1
        req, what, risk = need[w]
        have = cf.at(u, b, pt[0])
        missing = req - have
        if not missing:
            rep.ok(rid, "%s %s in %s: on every call chain behind %s" % (w, name, b.name, what))
        else:
            kind = "error-gate" if "NOERR" in missing else ("check-gate" if nocheck in missing else ("exists-gate" if any(isinstance(m, tuple) and m[0] == "NOEXIST" for m in missing) else "gate"))
            rep.violation(rid, "%s|%s|%s" % (b.name, name.rsplit("::", 2)[-2] + "::" + name.rsplit("::", 1)[-1], kind),
                          "%s (%s in %s) is not on every call chain dominated by %s; missing: %s; established: %s: %s"
                          % (w, name, b.name, what, _tokfmt(missing), _tokfmt(have), risk), site(b, pt))
    if n == 0:
        raise MissingAnchor("no file-system effect of the effect table found")


def _fmt(f):
    return "; ".join("%s=%s" % (show(e, 60), tr) for e, tr in f[:8]) or "nothing"


def _dominated_by_call(body, block, tail):
    for b, t in body.calls():
        e = P(body).call_expr(t)
        if e[1].endswith(tail) and b != block and body.dominates(b, block):
            return True
    return False


def exit_status(ctx, rep, rid="EXIT"):
    rep.rule(rid, "PROV/DOM: llw::main passes compile's Ok(bool) to process::exit through a 2-way branch on that bool with 0 on the "
                  "true edge and a non-zero constant on the false edge; lelwel::build exits non-zero on Ok(false)")
    units = {u.crate: u for u in lelwel_units(ctx)}
    u = units.get("llw")
    if u is None:
        raise MissingAnchor("no fact unit for the llw binary")
    main = u.one("main")
    pr = P(main)
    n = 0

    def compile_truth(block):
        """truth value of compile's Ok(bool) established by the edges that dominate `block` (None = not established)"""
        tr_ = None
        for e, tr in gates(main, block):
            if e[0] != "discr" and any(x[0] == "call" and x[1].endswith("compile") for x in walk(e)):
                tr_ = tr
        return tr_

    pairs = []
    for pt, name, decl, args, t in calls(main):
        if name.endswith("process::exit"):
            n += 1
            consts = _assigned_consts(main, t["args"][0])
            if consts is None:
                rep.violation(rid, "llw::main|exit-mapping", "llw main: an exit status is not a constant chosen by compile's result (%s)" % show(args[0], 80), site(main, pt))
                continue
            for blk, c in consts:
                where = blk if len(consts) > 1 else pt[0]
                pairs.append((compile_truth(where), c, pt))
    if n == 0:
        raise MissingAnchor("llw main has no process::exit call")
    ok_true = [c for tr, c, _ in pairs if tr is True]
    ok_false = [c for tr, c, _ in pairs if tr is False]
    stray_zero = [p_ for tr, c, p_ in pairs if c == 0 and tr is not True]
    if ok_true and all(c == 0 for c in ok_true) and ok_false and all(c not in (0, None) for c in ok_false) and not stray_zero:
        rep.ok(rid, "llw main: exit(0) on Ok(true), exit(%s) on Ok(false), no other exit(0)" % ok_false[0])
    else:
        rep.violation(rid, "llw::main|exit-mapping", "llw main: the exit status is not 0 exactly on compile's Ok(true) (status on Ok(true): %s, on Ok(false): %s, "
                      "exit(0) elsewhere: %d)" % (ok_true, ok_false, len(stray_zero)), site(main, pairs[0][2]) if pairs else "")


def _assigned_consts(body, operand, depth=0):
    """[(block, constant)] for an operand that is a constant or a local assigned only constants (possibly through copies of
    another such local: `let code = if ok {0} else {1}; exit(code)`); None otherwise"""
    p = operand.get("c") or operand.get("m")
    if p is None:
        k = operand.get("k", {})
        return [(0, k.get("v"))] if "v" in k else None
    if p.get("p"):
        return None
    l = p["l"]
    out = []
    for bi, si, kind, payload in body.defs().get(l, []):
        if kind == "call":
            return None
        rv = payload["rv"]
        if rv["r"] == "use" and "k" in rv["o"] and rv["o"]["k"].get("v") is not None:
            out.append((bi, rv["o"]["k"]["v"]))
        elif rv["r"] == "use" and depth < 3:
            sub = _assigned_consts(body, rv["o"], depth + 1)
            if not sub:
                return None
            out.extend(sub if len(sub) > 1 else [(bi, sub[0][1])])
        else:
            return None
    return out


# ------------------------------------------------------------------------------------------------
# C11: optional AST accessors must not be unwrapped in the back ends
# ------------------------------------------------------------------------------------------------
OPTIONAL_ACCESSORS = ("ast::RuleDecl::regex", "ast::Paren::inner", "ast::TokenDecl::symbol")


ACC_EXEMPT = {
    ("backend::rust::RustOutput::output_regex", "ast::TokenDecl::symbol"):
        "in the arm for a symbol reference `'x'`: the reference is bound (decl_bindings) to the token declaration that declares this very symbol, so the declaration has one",
}


def accessor_unwrap(ctx, rep, rid="ACC"):
    rep.rule(rid, "contradiction rule: RuleDecl::regex, Paren::inner and TokenDecl::symbol return None for constructs that are legal in an "
                  "accepted grammar (empty rule, empty parentheses, token without symbol); almost every call site tests the Option; a "
                  "call site in the back ends or the analysis whose result flows directly into Option::unwrap/expect panics on an accepted grammar")
    lib = ctx.lelwel()
    n = 0
    exempt_used = {}
    for b in user_bodies(lib):
        for pt, name, decl, args, t in calls(b):
            if re.search(r"Option(<T>)?::(unwrap|expect)$", name):
                a = args[0]
                hit = None
                if a[0] == "call" and any(a[1].endswith(x) for x in OPTIONAL_ACCESSORS):
                    hit = a[1]
                if hit and (b.name, hit.split("frontend::")[-1]) in ACC_EXEMPT and exempt_used.get((b.name, hit), 0) < 1:
                    exempt_used[(b.name, hit)] = 1
                    rep.ok(rid, "%s unwraps %s  [%s]" % (b.name, fn_tail(hit), ACC_EXEMPT[(b.name, hit.split("frontend::")[-1])]))
                    hit = None
                if hit:
                    rep.violation(rid, "%s|unwrap|%s" % (b.name, hit), "%s unwraps the result of %s, which is None for a construct accepted grammars may contain"
                                  % (b.name, hit), site(b, pt))
            if any(name.endswith(x) for x in OPTIONAL_ACCESSORS):
                n += 1
                rep.ok(rid, "%s calls %s" % (b.name, fn_tail(name)))
    rep.floor(rid, 25, "accessor call sites")


# ------------------------------------------------------------------------------------------------
# C15: determinism
# ------------------------------------------------------------------------------------------------
HASH_ITER = re.compile(r"std::collections::Hash(Map|Set)::(iter|iter_mut|keys|values|values_mut|into_keys|into_values|drain|retain|extract_if|"
                       r"intersection|union|difference|symmetric_difference)$"
                       r"|<&?(mut )?std::collections::Hash(Map|Set)<.*> as std::iter::IntoIterator>::into_iter$"
                       r"|<std::collections::Hash(Map|Set)<.*> as std::fmt::Debug>::fmt$")
NONDET = re.compile(r"std::time::(SystemTime|Instant)::now$|RandomState::new$|std::thread::current$|std::env::vars(_os)?$|std::process::id$"
                    r"|std::collections::Hash(Map|Set)::new$")


def det_rules(ctx, rep):
    rep.rule("TYPES", "no hash container whose hasher is the randomly seeded std RandomState is iterated, drained, retained or Debug-printed "
                      "anywhere in the library or llw (iteration order would differ between processes); FxHash containers have a fixed seed")
    rep.rule("NONDET", "no call of SystemTime::now, Instant::now, RandomState::new, HashMap::new/HashSet::new with the default hasher, "
                       "thread::current, env::vars, process::id in the library (outside the language server) or llw")
    lib = ctx.lelwel()
    units = [u for u in lelwel_units(ctx) if u.crate != "lelwel_ls"]
    nhash = 0
    nfn = 0
    for u in units:
        for b in user_bodies(u):
            if b.name.startswith("ide::"):
                continue
            nfn += 1
            for pt, name, decl, args, t in calls(b):
                raw = t["f"].get("k", {})
                full = (raw.get("res_full") or raw.get("fn_full") or "") if isinstance(raw, dict) else ""
                gen = " ".join(str(x) for x in (raw.get("args") or [])) if isinstance(raw, dict) else ""
                if HASH_ITER.search(name) or HASH_ITER.search(decl):
                    nhash += 1
                    text = name + " " + decl + " " + gen + " " + " ".join(b.local_ty(p["l"]) for p in _arg_places(t))
                    if "RandomState" in text or (("HashMap<" in text or "HashSet<" in text) and "Fx" not in text and "BuildHasherDefault" not in text and re.search(r"Hash(Map|Set)<[^>]*>", text) and not re.search(r"Hasher", text)):
                        rep.violation("TYPES", "%s|%s|random-hasher" % (b.name, fn_tail(name)), "%s iterates a std hash container with the randomly seeded "
                                      "RandomState hasher (%s): the order differs from run to run" % (b.name, fn_tail(name)), site(b, pt))
                    elif "Fx" in text or "BuildHasherDefault" in text:
                        rep.ok("TYPES", "%s: %s on a fixed-seed Fx container" % (b.name, fn_tail(name)))
                    else:
                        rep.violation("TYPES", "%s|%s|unknown-hasher" % (b.name, fn_tail(name)), "%s iterates a hash container whose hasher cannot be determined "
                                      "(types: %s)" % (b.name, text[:200]), site(b, pt))
                if NONDET.search(name):
                    rep.violation("NONDET", "%s|%s" % (b.name, fn_tail(name)), "%s calls %s, a source of run-to-run nondeterminism, in the generator pipeline"
                                  % (b.name, name), site(b, pt))
            rep.ok("NONDET", None, nontrivial=False)
    rep.count("functions scanned", nfn)
    rep.floor("TYPES", 5, "hash-order iterations")


def _arg_places(t):
    for a in t["args"]:
        p = a.get("c") or a.get("m")
        if p is not None:
            yield p


# ------------------------------------------------------------------------------------------------
# C07: the binding powers of a branch are adjusted at most once per branch (L-LOOP)
# ------------------------------------------------------------------------------------------------
BP_MUTATORS = re.compile(r"HashMap::(entry|insert|get_mut|remove|retain|clear|iter_mut|values_mut|extend|drain)$|IndexMut.*::index_mut$")


def _loop_kind(body, lp):
    """what the loop iterates: provenance text of the receiver of the Iterator::next call in its header"""
    pr = P(body)
    for b in sorted(lp["body"]):
        t = body.blocks[b]["t"]
        if t["t"] == "call":
            e = pr.call_expr(t)
            if e[1].endswith("Iterator>::next") or e[3].endswith("Iterator::next"):
                if b == lp["header"] or body.dominates(lp["header"], b):
                    return e
    return None


def bp_once(ctx, rep, rid="LOOP"):
    rep.rule(rid, "LOOP: in OperatorValidator::run every mutation of RecursiveBranches.binding_power executes at most once per recursive "
                  "branch: from a mutation site no mutation site (itself included) is reachable again without passing the header of "
                  "the loop over `branches` or over `sema.recursive` (a swap inside the loop over the branch's operator tokens runs once "
                  "per right-associative token and cancels itself for an even number of them)")
    lib = ctx.lelwel()
    run = lib.one("OperatorValidator::run")
    bodies = [run] + [b for b in lib.bodies.values() if b.parent_id == run.id]
    sites = []
    for body in bodies:
        for pt, name, decl, args, t in calls(body):
            if (BP_MUTATORS.search(name) or BP_MUTATORS.search(decl)) and any(
                    x[0] == "field" and x[3] == "binding_power" for a in args for x in walk(a)):
                sites.append((body, pt, name))
    if not sites:
        raise MissingAnchor("OperatorValidator::run: no mutation of RecursiveBranches.binding_power found")
    for body, pt, name in sites:
        if body is not run:
            rep.violation(rid, "OperatorValidator::run|binding_power|in-closure", "binding_power is mutated inside a closure of OperatorValidator::run; "
                          "how often the closure runs per branch cannot be bounded by this rule (fail closed)", site(body, pt))
            continue
        ok_headers = set()
        inner = []
        for lp in body.loops():
            if pt[0] not in lp["body"]:
                continue
            e = _loop_kind(body, lp)
            txt = show(e, 4000) if e else ""
            fields = {x[3] for x in walk(e) if x[0] == "field"} if e else set()
            if "branches" in fields or ("recursive" in fields and "first_sets" not in fields):
                ok_headers.add(lp["header"])
            else:
                inner.append((lp, ".".join(sorted(fields)) or "?"))
        if not ok_headers:
            raise MissingAnchor("OperatorValidator::run: the mutation of binding_power is not inside a loop over `branches` / `sema.recursive`")
        site_pts = {p for b2, p, _ in sites if b2 is body}
        # latch idiom: site gated by `flag == false`, flag set to true afterwards
        latch = set()
        for e, tr in gates(body, pt[0]):
            if e[0] == "local" and tr is False:
                latch.add(e[1])

        def blocked(p, it):
            if p[0] in ok_headers and p[1] == 0:
                return True
            if isinstance(it, dict) and "rv" in it and not it["a"]["p"] and it["a"]["l"] in latch:
                rv = it["rv"]
                if rv["r"] == "use" and "k" in rv["o"] and rv["o"]["k"].get("v") in (1, True):
                    return True
            return False

        path = flow.find_path(body, pt, lambda p, it: p in site_pts, blocks_point=blocked,
                              edge_ok=lambda s, t, lab: t not in ok_headers)
        if path is None:
            rep.ok(rid, "OperatorValidator::run: %s on binding_power runs at most once per branch (enclosing loops: %s)"
                   % (fn_tail(name), sorted(ok_headers)))
        else:
            what = "; ".join("it is inside the loop whose iterator derives from fields {%s}" % t for _, t in inner) or "straight-line repetition"
            rep.violation(rid, "OperatorValidator::run|binding_power|%s|more-than-once-per-branch" % fn_tail(name),
                          "OperatorValidator::run: the mutation of binding_power (%s) can execute more than once for one branch (%s): a branch whose "
                          "operator position lists an even number of `right` tokens gets its powers swapped back and parses left-associatively"
                          % (fn_tail(name), what), site(body, pt), flow.describe_path(body, path))
    rep.count("binding_power mutation sites", len(sites))


# ------------------------------------------------------------------------------------------------
# C15: fixpoint loops accumulate their change flag (declaration-order independence of the analysis sets)
# ------------------------------------------------------------------------------------------------
def fixpoint_rule(ctx, rep, rid="FIX"):
    rep.rule(rid, "LOOP: in the semantic pass, a boolean variable that decides whether a loop goes round again (`while change`) is, inside any loop "
                  "nested in that loop, only ever reset to a constant or or-accumulated (`change |= ..`); a plain overwrite inside the inner loop over "
                  "the declarations forgets the changes made for earlier declarations, so the fixpoint stops early or late depending on the order in "
                  "which rules are declared")
    lib = ctx.lelwel()
    n = 0
    for b in user_bodies(lib):
        if not b.name.startswith("frontend::sema::"):
            continue
        loops = b.loops()
        if len(loops) < 2:
            continue
        pr = P(b)
        for Lo in loops:
            # bool user locals tested by an exit switch of Lo
            flags = set()
            for blk in Lo["body"]:
                t = b.blocks[blk]["t"]
                if t["t"] == "switch" and any(s not in Lo["body"] for s in b.succ(blk)):
                    e = pr.operand(t["d"])
                    if e[0] == "local" and b.local_ty(e[1]) == "bool" and b.varname(e[1]):
                        flags.add(e[1])
            for f in flags:
                n += 1
                bad = None
                for Li in loops:
                    if Li is Lo or not (Li["body"] < Lo["body"]):
                        continue
                    for blk in Li["body"]:
                        for i, s in enumerate(b.blocks[blk]["s"]):
                            if "rv" in s and not s["a"]["p"] and s["a"]["l"] == f:
                                e = pr.rvalue(s["rv"])

                                def ok_value(e_, blk_, depth=0):
                                    if e_[0] == "const" or (e_[0] == "bin" and e_[1] == "BitOr" and (e_[2] == ("local", f, b.varname(f)) or e_[3] == ("local", f, b.varname(f)))):
                                        return True
                                    # `flag = flag || x` is lowered to a branch on the flag: `true` on its true edge, `x` on its false edge;
                                    # overwriting a flag that is known to be false is an or-accumulation
                                    if any(a == ("local", f, b.varname(f)) and tr is False for a, tr in gates(b, blk_)):
                                        return True
                                    if e_[0] == "local" and not b.varname(e_[1]) and depth < 2:
                                        ds = [d for d in b.defs().get(e_[1], []) if d[2] == "assign"]
                                        return bool(ds) and len(ds) == len(b.defs().get(e_[1], [])) and all(ok_value(pr.rvalue(d[3]["rv"]), d[0], depth + 1) for d in ds)
                                    return False
                                ok = ok_value(e, blk)
                                if not ok:
                                    bad = ((blk, i), e)
                if bad:
                    rep.violation(rid, "%s|%s|overwrite-in-inner-loop" % (b.name, b.varname(f)), "%s: the loop flag `%s` is overwritten (`%s`) inside a loop nested in the "
                                  "loop it controls instead of being or-accumulated: whether the outer loop goes round again depends only on the last "
                                  "declaration visited, so the computed set depends on declaration order" % (b.name, b.varname(f), show(bad[1], 100)), site(b, bad[0]))
                else:
                    rep.ok(rid, "%s: loop flag `%s` is only reset or or-accumulated inside nested loops" % (b.name, b.varname(f)))
    rep.count("loop flags examined", n)
    rep.floor(rid, 3, "fixpoint loops")


# ------------------------------------------------------------------------------------------------
# L-FIXEXIT: the propagation passes run until nothing changes, not a fixed number of times
# ------------------------------------------------------------------------------------------------
FIXPOINT_DRIVERS = {
    "OrderedChoiceValidator::calc_containment": "containment in an ordered choice is transitive through rule references of any depth",
    "LL1Validator::calc_first": "first sets propagate through chains of rule references of any length",
    "LL1Validator::calc_follow": "follow sets propagate through chains of rule references of any length",
    "UsageValidator::run": "usage propagates from the start rule through references of any depth",
    "RecoverySetGenerator::run": "dominator elimination needs as many rounds as the longest predecessor chain",
}


def fixpoint_exit_rule(ctx, rep, rid="FIXEXIT", only=None):
    rep.rule(rid, "LOOP: each propagation pass of the semantic pass (containment in ordered choices, first, follow, usage, recovery/dominators) "
                  "contains a loop around its per-declaration work that is left only through a change test - a boolean flag variable, a comparison of two "
                  "table sizes (`len()` before and after the round) or an emptiness test of a work list - and never through a counter or an "
                  "exhausted iterator alone: the facts propagate along reference chains of unbounded length, so a bounded number of rounds computes "
                  "a result that depends on the order of the declarations and is incomplete for grammars whose chains run against that order")
    lib = ctx.lelwel()
    n = 0
    for tail, why in sorted(FIXPOINT_DRIVERS.items()):
        if only and tail not in only:
            continue
        bs = [b for b in user_bodies(lib) if b.name.startswith("frontend::sema::") and b.name.endswith("::" + tail) or b.name == "frontend::sema::" + tail]
        if not bs:
            raise MissingAnchor("frontend::sema::" + tail)
        for b in bs:
            pr = P(b)
            good = []
            for Lo in b.loops():
                has_call = any(b.blocks[x]["t"]["t"] == "call" and not (b.blocks[x]["t"].get("sp") or {}).get("exp") for x in Lo["body"])
                if not has_call:
                    continue
                exits = []
                for blk in Lo["body"]:
                    t = b.blocks[blk]["t"]
                    outs = [s for s in b.succ(blk) if s not in Lo["body"] and b.blocks[s]["t"]["t"] not in ("unreachable", "resume", "abort", "terminate")]
                    if not outs:
                        continue
                    if t["t"] == "switch":
                        exits.append((blk, pr.operand(t["d"])))
                    elif t["t"] in ("goto", "call", "drop", "assert"):
                        exits.append((blk, None))
                # unwinding/cleanup edges are not exits of interest: keep switches only when there is at least one
                sw = [(blk, e) for blk, e in exits if e is not None]
                if not sw:
                    continue

                def change_test(e):
                    if e[0] == "local" and b.local_ty(e[1]) == "bool" and b.varname(e[1]):
                        return True
                    if e[0] == "un" and len(e) > 2:
                        return change_test(e[2])
                    if e[0] == "bin" and e[1] in ("Eq", "Ne", "Lt", "Gt", "Le", "Ge"):
                        s2, s3 = show(e[2], 400), show(e[3], 400)
                        return "::len(" in s2 and "::len(" in s3 or ("::len(" in s2 or "::len(" in s3) and any(x[0] == "local" and b.varname(x[1]) for x in list(walk(e[2])) + list(walk(e[3])))
                    s = show(e, 400)
                    return "::is_empty(" in s
                if all(change_test(e) for _, e in sw):
                    good.append(Lo)
            n += 1
            if good:
                rep.ok(rid, "%s: iterates until a change test fails (%d such loop(s)); %s" % (tail, len(good), why))
            else:
                rep.violation(rid, "%s|no-change-tested-loop" % b.name, "%s has no loop that is left only through a change test (flag, size comparison, empty "
                              "work list): the pass runs a bounded number of rounds although %s" % (b.name, why), "%s:%d" % (b.file, b.line))
    rep.count("propagation passes examined", n)
    rep.floor(rid, 1 if only else 5, "propagation passes")


# ------------------------------------------------------------------------------------------------
# L-TRAV: structural recursions over the regex tree visit every container variant
# ------------------------------------------------------------------------------------------------
CONTAINERS = ("OrderedChoice", "Alternation", "Concat", "Paren", "Optional", "Star", "Plus")


def traversal_rule(ctx, rep, rid="TRAV", only=None, floor=56):
    rep.rule(rid, "EXHAUSTIVENESS: every recursive function of the semantic pass and the Rust back end that dispatches on the kind of a regex node "
                  "(a switch on the discriminant of ast::Regex with an arm per variant) recurses, in the arm of each of the seven container variants "
                  "(ordered choice, alternation, concatenation, parentheses, option, star, plus), into the children: the arm contains a call from "
                  "which the function itself is reachable. A pass that skips a container never sees what is nested in it (e.g. the ban on "
                  "semantic actions and nested choices inside an ordered choice, usage marking, first/follow computation)")
    from .cg import CallGraph
    lib = ctx.lelwel()
    G = CallGraph([lib])
    regex_adt = [a for a in lib.adts if a.endswith("frontend::ast::Regex")]
    if not regex_adt:
        raise MissingAnchor("enum frontend::ast::Regex not found")
    vnames = {v["d"]: v["n"] for v in lib.adts[regex_adt[0]]["variants"]}
    reach_cache = {}

    def reaches(src, dst):
        if src not in reach_cache:
            reach_cache[src] = G.reach([src])
        return dst in reach_cache[src]

    nfun = 0
    for b in user_bodies(lib):
        if not (b.name.startswith("frontend::sema::") or b.name.startswith("backend::rust::")):
            continue
        if only and not any(o in b.name for o in only):
            continue
        pr = P(b)
        disp = None
        for blk in sorted(b.reachable()):
            t = b.blocks[blk]["t"]
            if t["t"] == "switch":
                e = pr.operand(t["d"])
                if e[0] == "discr" and e[2].endswith("frontend::ast::Regex") and len(t["arms"]) >= 10 and (e[1][0] == "param" or any(x[0] == "param" for x in walk(e[1]))):
                    disp = blk
                    break
        if disp is None:
            continue
        # recursive at all?
        if not any(reaches(c, b.id) for c in G.succ.get(b.id, ())):
            continue
        nfun += 1
        t = b.blocks[disp]["t"]
        arm = {vnames.get(v): tg for v, tg in t["arms"]}
        fn = b.name.split("::", 2)[-1]
        for V in CONTAINERS:
            tg = arm.get(V, t["else"])
            # calls in the region dominated by the arm target (or, for a shared/else target, reachable before the function's join)
            region = [x for x in b.reachable() if b.dominates(tg, x)] if tg != t["else"] or V not in arm else []
            if V not in arm:
                region = [x for x in b.reachable() if b.dominates(tg, x)]
            ok = False
            for x in region:
                tt = b.blocks[x]["t"]
                if tt["t"] != "call":
                    continue
                k = tt["f"].get("k") or {}
                cands = [k.get("rid"), k.get("fid")]
                # closures handed to iterator adaptors
                for a in pr.call_expr(tt)[2]:
                    for y in walk(a):
                        if y[0] == "closure":
                            cands.append(y[1])
                        elif y[0] == "agg" and y[1][0] == "closure":
                            cands.append(y[1][1])
                for cnd in cands:
                    if cnd and cnd in G.bodies and (cnd == b.id or reaches(cnd, b.id)):
                        ok = True
                if ok:
                    break
            if ok:
                rep.ok(rid, "%s: arm for Regex::%s recurses" % (fn, V))
            else:
                rep.violation(rid, "%s|%s|no-recursion" % (b.name, V), "%s dispatches on the regex kind and is recursive, but its arm for Regex::%s contains no call that leads back to "
                              "it: sub-expressions nested in that construct are never visited by this pass" % (b.name, V), site(b, (tg, 0)))
    rep.count("structural recursions over Regex", nfun)
    rep.floor(rid, floor, "container arms")


# ------------------------------------------------------------------------------------------------
# L-ELIDEUSE: the elision classification of a construct is combined with the operator its meaning requires
# ------------------------------------------------------------------------------------------------
ELIDE_USE = {"Optional": "opt", "Star": "opt", "Alternation": "alt", "OrderedChoice": "alt", "Concat": "concat"}


def elision_use_rule(ctx, rep, rid="ELIDEUSE"):
    rep.rule(rid, "AGREEMENT: in GeneralCheck::check_regex (the function that classifies rule-node elision per regex) the arm of each construct "
                  "whose body may be executed zero times (`[x]`, `x*`) passes the operand's classification through RuleNodeElision::opt, the arms "
                  "of alternation and ordered choice fold their operands with RuleNodeElision::alt and concatenation with RuleNodeElision::concat "
                  "(the call may sit in the arm or in a closure the arm hands to an iterator adaptor). TAB shows that the three operators have "
                  "their path-set meaning; this rule shows that each construct uses the operator of its own path structure - a `x*` classified "
                  "like `x+` is treated as eliding unconditionally although the path with zero iterations does not elide, and the generated rule "
                  "function then never opens the rule's node on that path")
    from .cg import CallGraph
    lib = ctx.lelwel()
    G = CallGraph([lib])
    regex_adt = [a for a in lib.adts if a.endswith("frontend::ast::Regex")]
    if not regex_adt:
        raise MissingAnchor("enum frontend::ast::Regex not found")
    vnames = {v["d"]: v["n"] for v in lib.adts[regex_adt[0]]["variants"]}
    cands_b = [b for b in user_bodies(lib) if b.name.endswith("GeneralCheck::check_regex") or re.search(r"GeneralCheck(<.*>)?::check_regex$", b.name)]
    if not cands_b:
        raise MissingAnchor("frontend::sema::GeneralCheck::check_regex")
    n = 0
    for b in cands_b:
        pr = P(b)
        disp = None
        for blk in sorted(b.reachable()):
            t = b.blocks[blk]["t"]
            if t["t"] == "switch":
                e = pr.operand(t["d"])
                if e[0] == "discr" and e[2].endswith("frontend::ast::Regex") and len(t["arms"]) >= 10:
                    disp = blk
                    break
        if disp is None:
            raise MissingAnchor("dispatch on ast::Regex in %s" % b.name)
        t = b.blocks[disp]["t"]
        arm = {vnames.get(v): tg for v, tg in t["arms"]}

        def ops_in(body, region, depth=0, seen=None):
            seen = seen if seen is not None else set()
            out = set()
            p2 = P(body)
            for x in region:
                tt = body.blocks[x]["t"]
                if tt["t"] != "call":
                    continue
                e = p2.call_expr(tt)
                for nm in (e[1], e[3]):
                    m = re.search(r"RuleNodeElision::(opt|alt|concat)$", nm or "")
                    if m:
                        out.add(m.group(1))
                if depth < 3:
                    for a in e[2]:
                        for y in walk(a):
                            cid = y[1] if y[0] == "closure" else (y[1][1] if y[0] == "agg" and y[1] and y[1][0] == "closure" else None)
                            if cid and cid in G.bodies and cid not in seen:
                                seen.add(cid)
                                cb = G.bodies[cid]
                                out |= ops_in(cb, sorted(cb.reachable()), depth + 1, seen)
            return out

        for V, op in sorted(ELIDE_USE.items()):
            if V not in arm:
                rep.violation(rid, "%s|%s|no-arm" % (b.name, V), "%s has no arm of its own for Regex::%s" % (b.name, V), site(b, (disp, 0)))
                continue
            tg = arm[V]
            region = [x for x in b.reachable() if b.dominates(tg, x)]
            got = ops_in(b, region)
            n += 1
            if op in got:
                rep.ok(rid, "check_regex: arm for Regex::%s applies RuleNodeElision::%s" % (V, op))
            else:
                rep.violation(rid, "%s|%s|missing-%s" % (b.name, V, op), "the arm of %s for Regex::%s does not apply RuleNodeElision::%s to the classification of its "
                              "operand(s) (operators applied in the arm: %s): the construct is classified with the path structure of a different construct"
                              % (b.name, V, op, ", ".join(sorted(got)) or "none"), site(b, (tg, 0)))
    rep.count("construct arms compared with their elision operator", n)
    rep.floor(rid, 5, "construct arms")


# ------------------------------------------------------------------------------------------------
# L-MONO: an analysis table is never updated under a growth test of a *different* table
# ------------------------------------------------------------------------------------------------
_TABLE_UPDATE = re.compile(r"(::extend|::insert|::append|::extend_from_slice|::push)$")


def _sema_fields(e):
    """SemanticData fields the receiver chain of `e` is rooted in (map keys and other arguments are not followed)"""
    while e[0] == "call" and e[2]:
        e = e[2][0]
    return {x[3] for x in walk(e) if x[0] == "field" and x[2].endswith("SemanticData")}


def _len_tables(e):
    out = set()
    for x in walk(e):
        if x[0] == "call" and re.search(r"::len$", x[1]) and x[2]:
            out |= _sema_fields(x[2][0])
    return out


def monotone_rule(ctx, rep, rid="MONO"):
    rep.rule(rid, "GUARD: in the semantic pass every update (`extend`, `insert`, ..) of a table of SemanticData (first, follow, predict, recovery, "
                  "left_rec_local_follow, used, ..) is free of guards that compare the size (`len()`) of a different table: the tables are "
                  "computed by a joint monotone fixpoint, and a table that is only updated when another one happened to grow misses every "
                  "contribution that arrives on a visit where the other table was already complete (e.g. the outside follow of a left-recursive "
                  "rule used for conflict E012 / the Pratt loop's exit)")
    lib = ctx.lelwel()
    n = 0
    for b in user_bodies(lib):
        if not b.name.startswith("frontend::sema::"):
            continue
        pr = P(b)
        for pt, name, decl, args, t in calls(b):
            if not (_TABLE_UPDATE.search(name) or _TABLE_UPDATE.search(decl)) or not args:
                continue
            tabs = _sema_fields(args[0])
            if not tabs:
                continue
            n += 1
            bad = None
            for e, truth in gates(b, pt[0]):
                other = _len_tables(e) - tabs
                if other:
                    bad = (e, other)
            if bad:
                rep.violation(rid, "%s|%s|guarded-by-len(%s)" % (b.name, ",".join(sorted(tabs)), ",".join(sorted(bad[1]))),
                              "%s: the update of table `%s` is only executed under a condition on the size of table `%s` (`%s`): contributions that "
                              "arrive when that other table no longer grows are lost" % (b.name, ",".join(sorted(tabs)), ",".join(sorted(bad[1])), show(bad[0], 160)), site(b, pt))
            else:
                rep.ok(rid, "%s: update of `%s` carries no size guard of another table" % (b.name, ",".join(sorted(tabs))))
    rep.count("table updates examined", n)
    rep.floor(rid, 20, "table updates in the semantic pass")


# ------------------------------------------------------------------------------------------------
# L-FMTCHK (C18, check-mode clause): `llw -f -c` answers "unchanged" exactly when `llw -f` would write back the bytes it read
# ------------------------------------------------------------------------------------------------
_TRANSPARENT = re.compile(r"(Deref>::deref|AsRef<[^>]*>>::as_ref|::as_str|Borrow<[^>]*>>::borrow|String::as_bytes|str::as_bytes)$")


def _strip(e):
    while True:
        if e[0] == "call" and _TRANSPARENT.search(e[1]) and len(e[2]) == 1:
            e = e[2][0]
        elif e[0] in ("cast",):
            e = e[2]
        else:
            return e


def _is_src(e, param):
    """the text read from the input file: `read_to_string(<param>)?`"""
    e = _strip(e)
    for x in walk(e):
        if x[0] == "call" and x[1].endswith("fs::read_to_string") and x[2] and _strip(x[2][0]) == param:
            break
    else:
        return False
    # nothing but Try::branch / Continue projections / unwrap between the read and the use
    y = e
    while True:
        if y[0] in ("field", "variant"):
            y = y[1]
        elif y[0] == "call" and (y[1].endswith("Try>::branch") or re.search(r"Result(<T, E>)?::(unwrap|expect)$", y[1])):
            y = y[2][0]
        else:
            break
    return y[0] == "call" and y[1].endswith("fs::read_to_string")


def fmtcheck_rule(ctx, rep, rid="FMTCHK"):
    rep.rule(rid, "PROV/DOM: in the function that calls backend::format::format for the command line (lelwel::compile): (1) the formatter's input "
                  "is the tree parsed from the text `read_to_string(input)` returned; (2) on the edge `check == true` the function returns "
                  "Ok(text == formatted) with exactly these two values and writes nothing; (3) on the edge `check == false` it passes exactly "
                  "`formatted` to fs::write on the same path parameter that was read.  Hence check mode answers 'no difference' exactly when "
                  "format mode would leave the file's bytes unchanged")
    lib = ctx.lelwel()
    homes = []
    for b in user_bodies(lib):
        if b.name.startswith("backend::format::") or b.name.startswith("ide"):
            continue
        for pt, name, decl, args, t in calls(b):
            if name.endswith("backend::format::format"):
                homes.append((b, pt, args))
    if len(homes) != 1:
        raise MissingAnchor("expected one command-line call site of backend::format::format, found %d" % len(homes))
    b, fpt, fargs = homes[0]
    pr = P(b)
    fmt_expr = None
    for pt, name, decl, args, t in calls(b):
        if pt == fpt:
            fmt_expr = pr.call_expr(t)
    reads = [(pt, args) for pt, name, decl, args, t in calls(b) if name.endswith("fs::read_to_string")]
    if len(reads) != 1 or _strip(reads[0][1][0])[0] != "param":
        raise MissingAnchor("%s: expected one read_to_string(<path parameter>)" % b.name)
    param = _strip(reads[0][1][0])

    def is_fmt(e):
        return _strip(e) == fmt_expr

    # (1) the formatted tree is parsed from the text that was read
    srcs = [x for x in walk(fargs[0]) if x[0] == "call" and x[1].endswith("Parser::new") and x[2] and _is_src(x[2][0], param)]
    parsed = any(x[0] == "call" and x[1].endswith("Parser::parse") for x in walk(fargs[0]))
    if srcs and parsed:
        rep.ok(rid, "%s: format() receives Parser::new(read_to_string(%s)?).parse()" % (b.name, param[2]))
    else:
        rep.violation(rid, "%s|format-input" % b.name, "%s: the tree handed to backend::format::format is not the parse of the text read from `%s` (%s)"
                      % (b.name, param[2], show(fargs[0], 200)), site(b, fpt))
    # (2) check-mode return
    n_ret = 0
    for bi, blk in enumerate(b.blocks):
        if bi not in b.reachable():
            continue
        for i, s in enumerate(blk["s"]):
            if not ("rv" in s and s["a"]["l"] == 0 and not s["a"]["p"]):
                continue
            g = gates(b, bi)
            if not (has_param(g, "_format", True) or has_param(g, "format", True)):
                continue
            e = pr.rvalue(s["rv"])
            if not (e[0] == "agg" and e[1][-1] == "Ok" and len(e[2]) == 1):
                continue
            v = e[2][0]
            if has_param(g, "check", True):
                n_ret += 1
                neg = False
                while v[0] == "un" and v[1] == "Not":
                    neg = not neg
                    v = v[2]
                ok = False
                if v[0] == "call" and len(v[2]) == 2 and re.search(r"PartialEq(<[^>]*>)?>?::(eq|ne)$", v[1]):
                    is_ne = v[1].endswith("::ne")
                    a, c = v[2]
                    pair = (_is_src(a, param) and is_fmt(c)) or (_is_src(c, param) and is_fmt(a))
                    ok = pair and (neg == is_ne)
                if ok:
                    rep.ok(rid, "%s: check mode returns Ok(text == formatted)" % b.name)
                else:
                    rep.violation(rid, "%s|check-return" % b.name, "%s: in format + check mode the function returns `%s`, which is not the comparison of the "
                                  "text read from the file with the formatter's result" % (b.name, show(e, 300)), site(b, (bi, i)))
    if n_ret == 0:
        rep.violation(rid, "%s|check-return-missing" % b.name, "%s: no return of Ok(..) on the edge `_format && check`" % b.name, site(b, fpt))
    # (3) write-mode: the only write behind `_format` passes the formatted text to the path that was read, on the edge !check
    n_w = 0
    for pt, name, decl, args, t in calls(b):
        if not FS_MUTATORS.search(name):
            continue
        g = gates(b, pt[0])
        if not (has_param(g, "_format", True) or has_param(g, "format", True)):
            continue
        n_w += 1
        if name.endswith("fs::write") and _strip(args[0]) == param and is_fmt(args[1]) and has_param(g, "check", False):
            rep.ok(rid, "%s: format mode writes exactly the formatter's result to `%s` (edge !check)" % (b.name, param[2]))
        else:
            rep.violation(rid, "%s|format-write" % b.name, "%s: the write in format mode is not `fs::write(%s, formatted)` on the edge `!check` (%s(%s))"
                          % (b.name, param[2], name, ", ".join(show(a, 80) for a in args)), site(b, pt))
    if n_w == 0:
        rep.violation(rid, "%s|format-write-missing" % b.name, "%s: format mode writes nothing" % b.name, site(b, fpt))


# ------------------------------------------------------------------------------------------------
# L-PREORD: an inherited table is written for a child before the pass descends into that child
# ------------------------------------------------------------------------------------------------
PREORDER_PASSES = {
    "frontend::sema::LL1Validator::calc_follow_regex": ("follow_sets", 7),
}


def _table_keys(e, field):
    """child expressions X of every `<table>.entry(X.syntax())` / `get_mut(&X.syntax())` on the receiver chain of e"""
    out = []
    for x in walk(e):
        if x[0] == "call" and re.search(r"HashMap(<[^>]*>)?::(entry|get_mut)$", x[1]) and len(x[2]) == 2 \
                and any(y[0] == "field" and y[2].endswith("SemanticData") and y[3] == field for y in walk(x[2][0])):
            for k in walk(x[2][1]):
                if k[0] == "call" and k[1].endswith("AstNode>::syntax") and k[2]:
                    out.append(k[2][0])
    return out


def _value_id(e):
    """identity of a value up to the provenance depth limit: the call site that produced it (projections stripped)"""
    while e[0] in ("field", "variant", "tfield"):
        e = e[1]
    if e[0] == "call":
        return ("call", e[1], e[4])
    return e


def preorder_rule(ctx, rep, rid="PREORD"):
    rep.rule(rid, "DOM: the follow pass is a top-down pass whose fixpoint flag only watches rule-level sets: in calc_follow_regex every "
                  "recursive call on a child is dominated by an update (`extend`) of follow_sets[child] for that same child; a descent "
                  "before the update lets the constructs inside the child read the previous pass's set, and nothing forces another pass")
    lib = ctx.lelwel()
    for fname, (field, floor) in PREORDER_PASSES.items():
        bs = [b for b in user_bodies(lib) if b.name == fname]
        if len(bs) != 1:
            raise MissingAnchor("%s not found" % fname)
        b = bs[0]
        ups = []
        recs = []
        for pt, name, decl, args, t in calls(b):
            if name.endswith(fname.rsplit("::", 2)[-2] + "::" + fname.rsplit("::", 1)[-1]) or name == fname:
                child = [a for a in args if a[0] not in ("param",) or a[2] not in ("cst", "sema", "rule_regex", "change")]
                recs.append((pt, args))
            elif _TABLE_UPDATE.search(name) and args and _sema_fields(args[0]) == {field}:
                for k in _table_keys(args[0], field):
                    ups.append((pt, k))
        n = 0
        for pt, args in recs:
            n += 1
            cands = [a for a in args if a[0] != "param"]
            ok = False
            for upt, k in ups:
                if any(_value_id(k) == _value_id(c) for c in cands) and (b.dominates(upt[0], pt[0]) and (upt[0] != pt[0] or upt[1] < pt[1])):
                    ok = True
            what = show(cands[0], 90) if cands else "?"
            if ok:
                rep.ok(rid, "%s: %s[%s] is extended before the descent" % (fname.rsplit("::", 1)[-1], field, what))
            else:
                rep.violation(rid, "%s|descent-before-update|%s" % (fname, re.sub(r"[^A-Za-z:]+", "", show(cands[0], 60))[:60] if cands else "?"),
                              "%s descends into `%s` before %s for that child has been extended on this pass: the constructs nested in the child are "
                              "computed from the previous pass's set and the fixpoint can stop with them stale" % (fname, what, field), site(b, pt))
        rep.count("recursive descents in %s" % fname.rsplit("::", 1)[-1], n)
        if n < floor:
            rep.violation(rid, "floor:%s" % fname, "%s: only %d recursive descents recognised (%d on the audited tree)" % (fname, n, floor))
