"""C04 no diagnostic iff sentence (partial): E1, S8, S2, F1, F2, F5."""
from .. import skel, tval
from . import common

LEVEL = "other"
EXHAUSTIVE = False
EXPLANATION = ("Necessary conditions of 'invalid input is never accepted silently': a token is consumed without error only after it "
               "was tested (E1); error-mode consumption is preceded by a report (S8); trailing input after the start rule is reported "
               "and the input is completed (S2); at the end of the token stream the current token becomes the entry point's own end-of-input token (S7: a `part` entry point otherwise sees the start rule's end token, which is not in its follow set, and a sentence of the part draws a diagnostic); the choice-mode flag, under which mismatches are answered with a silent None, cannot "
               "survive an ordered choice (F1); inside an attempt that can still be undone nothing is reported (F2: a sentence whose first alternative fails late would draw a diagnostic) and the result of a shared rule is never dropped (F5: a failed attempt would continue as if it had matched, accepting invalid input silently). TVAL: for the rule functions of the analysed grammars that are not left-recursive, predicate-free and not used in an ordered choice, the emitted code is validated against the grammar text: same sequence of terminal matches, rule calls and decisions, and every decision uses exactly the first/follow/predict sets recomputed from the text, which by the LL(1) theorem gives the iff for those functions up to the recovery arms. For left-recursive rules, predicates and ordered choice the iff is not decided.")


def run(ctx, rep):
    common.s_rules(ctx, rep, [
        lambda i, r, o: skel.s8_report_first(i, r),
        lambda i, r, o: skel.s2_complete(i, r),
        lambda i, r, o: skel.s7_saturate(i, r),
    ])
    common.g_rules(ctx, rep, ["E1", "F1", "F2", "F5", "F8"], floors={"E1": 300, "F1": 300})
    tval.tval_rule(ctx, rep)
