"""C08 backtracking leaves no trace: S3, S12, S13 on the skeleton; F1..F6 on generated code."""
from .. import skel, lrules
from . import common

LEVEL = "other"
EXHAUSTIVE = False
EXPLANATION = ("Snapshot symmetry (S3: get_state/mark_truncation read exactly the fields set_state/truncate restore, including pos, "
               "current, node count, token_count, non_skip_len, diagnostic count), write-set of attempt-callable skeleton methods is "
               "inside the snapshot (S12), delete callbacks run before truncation (S13); on generated code the choice-mode flag "
               "typestate (F1), no report / action while the flag may be set (F2, F3), delete dispatcher covers created kinds (F4), "
               "`?` never dropped (F5), no insertion below the snapshot (F6), error suppression not switched on in an attempt (F8); the semantic pass's containment computation and its static ban on nested choices and actions recurse into every container construct (TRAV), and the containment computation (which rules are used inside an ordered choice, decides `?` propagation and the ban on actions) runs to a fixpoint instead of a bounded number of rounds (FIXEXIT).")


def run(ctx, rep):
    def s3_s12(i, r, o):
        cov = skel.s3_snapshot(i, r)
        skel.s12_writeset(i, r, cov or set())
    common.s_rules(ctx, rep, [s3_s12, lambda i, r, o: skel.s13_delete(i, r)])
    common.g_rules(ctx, rep, ["F1", "F2", "F3", "F4", "F5", "F6", "F8"], floors={"F1": 300, "F2": 50})
    lrules.traversal_rule(ctx, rep, only=["OrderedChoiceValidator"], floor=14)
    lrules.fixpoint_exit_rule(ctx, rep, only=["OrderedChoiceValidator::calc_containment"])
