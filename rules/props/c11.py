"""C11 accepted => compiles, rejected => nothing written (partial)."""
from .. import lrules
from . import common

LEVEL = "other"
EXHAUSTIVE = False
EXPLANATION = ("Generation gated on an error-free diagnostic list after semantic analysis (edge dominance in compile), no other caller "
               "of the back ends; optional AST accessors are not unwrapped (contradiction rule); every accepted corpus and example "
               "grammar yields a parser that type-checks under rustc (type-checking only, never executed). That the emitted parser "
               "compiles for every accepted grammar is not decided.")


def run(ctx, rep):
    lrules.fx_gates(ctx, rep, check_mode=False)
    lrules.accessor_unwrap(ctx, rep)
    rep.rule("TC", "every corpus grammar lelwel accepts (and every example grammar of the workspace) yields a generated parser that type-checks")
    us, crep = ctx.corpus()
    for g in crep["grammars"]:
        if g["status"] == "panicked":
            rep.violation("TC", "corpus:%s|generator-panicked" % g["name"], "lelwel panicked while compiling corpus grammar %s" % g["name"])
        elif g["status"] == "accepted" and g["name"] in crep["typecheck_failures"]:
            rep.violation("TC", "corpus:%s|does-not-typecheck" % g["name"], "corpus grammar %s is accepted without error but the emitted parser does not type-check: %s"
                          % (g["name"], crep["typecheck_failures"][g["name"]]))
        elif g["status"] == "accepted":
            rep.ok("TC", "corpus:%s type-checks" % g["name"])
        elif g["status"] == "rejected" and g.get("generated"):
            rep.violation("TC", "corpus:%s|rejected-but-generated" % g["name"], "corpus grammar %s was rejected but generated.rs was written" % g["name"])
        else:
            rep.ok("TC", "corpus:%s rejected, nothing generated" % g["name"], nontrivial=False)
    for inst in ctx.instances(with_corpus=False):
        rep.ok("TC", "%s type-checks" % inst.label)
    rep.floor("TC", 30, "grammars")
    lrules.traversal_rule(ctx, rep)
    common.corpus_note(ctx, rep)
