"""C03 totality: GPAI termination argument (P1, P2, P3) per generated parser + S7 cursor saturation in the skeleton."""
from .. import skel
from . import common

LEVEL = "other"
EXHAUSTIVE = False
EXPLANATION = ("Termination argument per analysed parser, for inputs of any length: the cursor never moves at end of input (P1), "
               "every loop cycle consumes (P2), every recursive cycle of rule functions consumes (P3); in the skeleton the None arm "
               "of tokens.get(pos) saturates the cursor at end_of_input and leaves the skip loop (S7). G-F2: no error node is opened inside a revocable ordered-choice attempt (its stale mark makes close_error_node index out of bounds after the truncation). Panic freedom of the skeleton's "
               "indexing and recursion depth are not decided.")


def run(ctx, rep):
    common.s_rules(ctx, rep, [lambda i, r, o: skel.s7_saturate(i, r)])
    common.g_rules(ctx, rep, ["P1", "P2", "P3", "F2"], floors={"P1": 500, "P2": 100, "P3": 300})
