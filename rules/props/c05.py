"""C05 for sentences the tree is the derivation tree with node operators applied (narrow)."""
from .. import tab, noderules, skel, lrules
from . import common

LEVEL = "other"
EXHAUSTIVE = False
EXPLANATION = ("Structural clauses: (TAB) the elision-classification algebra of the semantic pass equals its path-set meaning on all 21 inputs "
               "(exhaustive); (ELIDEUSE) each construct kind is classified with the operator of its own path structure (`[x]`, `x*` through opt, `|` and `/` through alt, concatenation through concat); (KINDSET) the node kinds each generated rule function can close are exactly the rule's own name, its renames and its "
               "creations as written in the grammar text (independent reader llwspec), every written rename/creation being producible; (FRESH) a "
               "close inside a loop uses a kind assigned in the same iteration; (MARKPOS) the mark of a node creation lies inside the rule's own node; (S19) an empty node created by a marker or a conditional elision behind a skipped token is pulled into the non-skip length, so it stays a child of its rule. Sampled grammars for the generated-code rules. That the tree equals "
               "the derivation tree (children in source order, marker/creation extents, actions once per visit) is not decided.")


def run(ctx, rep):
    tab.elision_tables(ctx, rep)
    lrules.elision_use_rule(ctx, rep)
    noderules.kindset_rule(ctx, rep)
    noderules.fresh_rule(ctx, rep)
    noderules.markpos_rule(ctx, rep)
    common.s_rules(ctx, rep, [lambda i, r, o: skel.s19_close_bump(i, r)])
    common.corpus_note(ctx, rep)
