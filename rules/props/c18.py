"""C18 (check-mode clause only): `llw -f -c` reports a difference exactly when `llw -f` would change the file."""
from .. import lrules

LEVEL = "other"
EXHAUSTIVE = True
EXPLANATION = ("Decides the second sentence of C18 only: in lelwel::compile the check-mode answer is the equality of the text read from the file "
               "with the value that format mode writes back to that same path, both taken from one call of backend::format::format on the "
               "tree parsed from that text (value provenance and edge dominance in the MIR), and llw maps Ok(false) to exit status 1 (EXIT). "
               "Idempotence of the formatter itself (format(format(x)) == format(x)) depends on dprint-core's layout decisions and is NOT decided.")


def run(ctx, rep):
    lrules.fmtcheck_rule(ctx, rep)
    lrules.exit_status(ctx, rep)
    rep.assume("backend::format::format is a function of the tree alone (it takes only &Cst; no global state is read: decided for the formatter's "
               "own code by the absence of statics/env reads in its call graph is NOT attempted)")
    rep.assume("idempotence of the formatter is not decided by this check")
