"""C16 skipped tokens are transparent (partial): S14..S17."""
from .. import skel
from . import common

LEVEL = "other"
EXHAUSTIVE = True
EXPLANATION = ("On every skeleton instance: wherever a fetched token is pushed, the skip flag is true exactly for tokens in is_skipped's set (which contains Error) or marked by predicate_skip, decided per token class by path enumeration (S14); Parser.current "
               "is only assigned a significant token, or end_of_input (S15); peek and "
               "peek_left filter through is_skipped (S16); node end offsets derive from non_skip_len, which advance updates only on "
               "the non-skip edge (S17). stepping over a skipped token writes no parser state but the cursor (S20). Equality of trees and diagnostics modulo trivia is not decided.")


def run(ctx, rep):
    def s14_15(i, r, o):
        ss = skel.s14_skipset(i, r)
        skel.s15_eager(i, r, ss)
    common.s_rules(ctx, rep, [s14_15, lambda i, r, o: skel.s16_peek(i, r), lambda i, r, o: skel.s17_ends(i, r), lambda i, r, o: skel.s19_close_bump(i, r), lambda i, r, o: skel.s20_skip_pure(i, r)])
