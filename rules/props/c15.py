"""C15 reproducible output (partial: the process-to-process reproducibility clause)."""
from .. import lrules

LEVEL = "other"
EXHAUSTIVE = True
EXPLANATION = ("Reproducibility clause: no randomly seeded hash container is iterated and no clock / random / environment source is called "
               "anywhere in the library (outside ide) or llw, so two runs execute the same deterministic program on the same input. "
               "Independence of declaration order (the phase-interleaving matrix of DESIGN section 3) is not implemented and not decided.")


def run(ctx, rep):
    lrules.det_rules(ctx, rep)
    rep.assume("dependencies (logos, codespan-reporting, dprint-core, rustc-hash) are deterministic")
