"""C15 reproducible output (partial: the process-to-process reproducibility clause)."""
from .. import lrules

LEVEL = "other"
EXHAUSTIVE = True
EXPLANATION = ("Reproducibility clause: no randomly seeded hash container is iterated and no clock / random / environment source is called "
               "anywhere in the library (outside ide) or llw, so two runs execute the same deterministic program on the same input. "
               "Of the declaration-order clause one necessary condition is decided (FIX): the flags that drive the semantic pass's fixpoint loops are or-accumulated inside the loops over the declarations, never overwritten; and (FIXEXIT) each of the five propagation passes (containment, first, follow, usage, recovery) is left only through a change test, never after a bounded number of rounds (a bounded number of rounds makes the result depend on the order in which reference chains are declared). The phase-interleaving matrix of DESIGN section 3 is not implemented; independence of declaration order as such is not decided.")


def run(ctx, rep):
    lrules.det_rules(ctx, rep)
    lrules.fixpoint_rule(ctx, rep)
    lrules.fixpoint_exit_rule(ctx, rep)
    rep.assume("dependencies (logos, codespan-reporting, dprint-core, rustc-hash) are deterministic")
