"""C06 first offending token, no cascade (partial): S8..S11."""
from .. import skel, tval, lrules
from . import common

LEVEL = "other"
EXHAUSTIVE = False
EXPLANATION = ("Active-error protocol of the skeleton, on all paths of every instance: diagnostics are pushed only behind the "
               "active_error guard together with setting error_since_advance (S9); the guard is cleared only by a successful "
               "consumption (S10); diagnostic spans come from Parser::span, which reads spans[pos] or max_offset (S11); a report "
               "precedes error-mode consumption (S8); at the end of the token stream the current token becomes the entry point's own end token (S7). Gives at most one syntax diagnostic per consumed token with spans inside the "
               "source. 'Earliest possible position' needs exact decision sets: TVAL validates, for the 300+ rule functions of the analysed grammars that are not left-recursive, predicate-free and not used in an ordered choice, that every decision of the emitted code uses exactly the first/follow/predict sets recomputed from the grammar text (sampled grammars); for the remaining rule functions it is not decided.PREORD: the follow pass extends follow_sets[child] before it descends into the child. MONO: no table of the semantic pass is updated under a size test of another table (the outside follow of a left-recursive rule decides where its operator loop stops).")


def run(ctx, rep):
    common.s_rules(ctx, rep, [
        lambda i, r, o: skel.s8_report_first(i, r),
        lambda i, r, o: skel.s9_guard(i, r),
        lambda i, r, o: skel.s10_clear(i, r),
        lambda i, r, o: skel.s11_span(i, r),
        lambda i, r, o: skel.s7_saturate(i, r),
    ])
    tval.tval_rule(ctx, rep)
    lrules.monotone_rule(ctx, rep)
    lrules.preorder_rule(ctx, rep)
    common.corpus_note(ctx, rep)
    rep.assume("user-written callbacks do not push diagnostics behind the parser's back (assertion_* return a diagnostic; C06 excludes assertions)")
