"""C06 first offending token, no cascade (partial): S8..S11."""
from .. import skel
from . import common

LEVEL = "other"
EXHAUSTIVE = True
EXPLANATION = ("Active-error protocol of the skeleton, on all paths of every instance: diagnostics are pushed only behind the "
               "active_error guard together with setting error_since_advance (S9); the guard is cleared only by a successful "
               "consumption (S10); diagnostic spans come from Parser::span, which reads spans[pos] or max_offset (S11); a report "
               "precedes error-mode consumption (S8). Gives at most one syntax diagnostic per consumed token with spans inside the "
               "source. 'Earliest possible position' needs exact predict sets and is not decided.")


def run(ctx, rep):
    common.s_rules(ctx, rep, [
        lambda i, r, o: skel.s8_report_first(i, r),
        lambda i, r, o: skel.s9_guard(i, r),
        lambda i, r, o: skel.s10_clear(i, r),
        lambda i, r, o: skel.s11_span(i, r),
    ])
    rep.assume("user-written callbacks do not push diagnostics behind the parser's back (assertion_* return a diagnostic; C06 excludes assertions)")
