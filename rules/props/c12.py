"""C12 the grammar front end accepts any text without panicking and with valid spans."""
from .. import shape, panicrules, lexrules

LEVEL = "other"
EXHAUSTIVE = True
EXPLANATION = ("Zone-sensitive panic-site discipline over lelwel's own code: the call graph from compile / the language-server entry points is cut "
               "at the error gates (recognised semantically), and every potentially panicking construct in the ungated zone that belongs to the "
               "front end (lexer, self-hosted parser instance, AST accessors, semantic analysis before the gate, diagnostics) must be generically "
               "justified or an audited table entry, some with re-checked dominance guards. Label spans must come from the lexer or the tree, "
               "never from byte arithmetic (one audited exception with frozen provenance). All paths, all texts. Termination of logos' automaton, "
               "of the fixpoint loops and of codespan's renderer is not decided.")


def run(ctx, rep):
    n = panicrules.evaluate(ctx, rep, ["C12"])
    rep.floor("PANIC", 20, "audited panic sites")
    panicrules.span_rule(ctx, rep)
    shape.shape_rule(ctx, rep, panicrules.zones_of)
    panicrules.gate_rule(ctx, rep)
    lexrules.lexbal_rule(ctx, rep, esc=False)
    panicrules.nth_rule(ctx, rep)
    panicrules.initsib_rule(ctx, rep)
    rep.assume("dependencies (logos and its derive output, codespan-reporting, std) do not panic when their documented preconditions hold")
    rep.assume("stderr is writable")
    rep.assume("recursion depth (stack exhaustion on deeply nested input) is not analysed")
