"""C02 well-formed tree (partial): S5 error node closed before any other tree operation; S4 node-vector discipline."""
from .. import skel, noderules
from . import common

LEVEL = "other"
EXHAUSTIVE = False
EXPLANATION = ("Decides two structural necessary conditions of a well-formed tree on every skeleton instance: every tree operation "
               "(open, open_before, close, mark) is preceded on all paths by closing a pending error node (S5), and CstData.nodes is "
               "only mutated by push in open/advance, insert in open_before, index_mut of a Rule node in close/close_root and truncate "
               "(S4). and a node closed behind trailing skipped tokens is covered by the non-skip length (S19: otherwise it falls out of its parent). S14/S17: the skip flag handed to CstData.advance - which decides whether a token extends the non-skip length that node ends derive from - is true exactly on the arms selected by the skip set of is_skipped (a node ends with a skipped token otherwise). N1: in the generated rule functions of the analysed grammars every mark from open/open_before is closed exactly once on every path to a normal return (typestate; sampled grammars). N2: every node-created callback is preceded by a close with the announced kind. The remaining extent arithmetic (end offsets, span nesting) and the created-callback clause are not decided.")


def run(ctx, rep):
    common.s_rules(ctx, rep, [
        lambda i, r, o: skel.s5_errnode(i, r),
        lambda i, r, o: skel.s4_nodes(i, r),
        lambda i, r, o: skel.s19_close_bump(i, r),
        lambda i, r, o: skel.s14_skipset(i, r),
        lambda i, r, o: skel.s17_ends(i, r),
    ])
    noderules.typestate_rule(ctx, rep)
    noderules.callback_rule(ctx, rep)
    common.corpus_note(ctx, rep)
    rep.assume("extent arithmetic of close/open_before and span nesting are run-time integer facts and are not decided")
