"""C13 reading a grammar file recovers exactly the grammar that was written."""
from .. import lexrules, shape, skel

LEVEL = "other"
EXHAUSTIVE = True
EXPLANATION = ("Structural clauses of C13 on the hand-written lexer glue and the self-hosted parser: (LEXBAL) the string lexer advances by exactly the "
               "characters it inspects and tokenize keeps tokens and spans aligned; (PEEK) hand-written predicates see the token stream only through "
               "the skip-filtered lookahead, so layout (whitespace, comments) cannot change a parse decision; (S16) on the self-hosted parser instance, peek and peek_left step over every skipped token (filter by is_skipped before nth), however many lie between two significant tokens; (CG) the regex rules nest along the "
               "documented precedence chain and each level consumes only its own operator. (ACCTOK) every typed accessor reads a token kind its node can own. That the typed view equals the written grammar for "
               "every layout is not decided.")


def run(ctx, rep):
    lexrules.lexbal_rule(ctx, rep)
    lexrules.peek_rule(ctx, rep)
    lexrules.cg_rule(ctx, rep)
    for inst in ctx.instances(with_corpus=False):
        if inst.unit.crate == "lelwel":
            skel.s16_peek(inst, rep)
    shape.agreement_rule(ctx, rep)
    rep.assume("logos' generated automaton implements the token patterns written in the attributes of enum Token (trusted dependency)")
