"""C19 file effects and exit status."""
from .. import lrules

LEVEL = "other"
EXHAUSTIVE = True
EXPLANATION = ("Complete table of file-system mutating call sites in lelwel's library and binaries (who-may-write), each dominated "
               "(edge dominance in the MIR CFG, which covers every combination of flags, file states and verdicts) by its documented "
               "gate; llw's exit status is 0 exactly on compile's Ok(true).")


def run(ctx, rep):
    lrules.fx_who(ctx, rep)
    lrules.fx_gates(ctx, rep, check_mode=True)
    lrules.exit_status(ctx, rep)
    rep.assume("std::fs functions outside the frozen mutator list do not modify the file system; dependencies (clap, codespan, dprint) write no files")
    rep.assume("compile's returned bool is the and-fold of `severity != Error` (read, not derived: the fold is a loop-carried value)")
