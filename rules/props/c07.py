"""C07 precedence and associativity of left-recursive rules."""
from .. import lrules, pratt
from . import common

LEVEL = "other"
EXHAUSTIVE = False
EXPLANATION = ("L-LOOP: in lelwel's OperatorValidator the binding powers of a branch are adjusted at most once per branch (all paths of the "
               "validator, hence all grammars). G-PRATT: for every directly left-recursive rule of the analysed grammars the constants in the "
               "emitted Pratt function (guard constant, guard direction, operand minimum, outermost minimum) satisfy the Pratt correctness "
               "inequalities implied by the branch order and the `right` list read from the grammar text by an independent reader (llwspec). "
               "Those inequalities are necessary and sufficient for the precedence-climbing loop to return the tree C07 describes; the loop "
               "shape itself (guard before consumption, one recursive call per right operand) is part of what is matched.")


def run(ctx, rep):
    lrules.bp_once(ctx, rep)
    rep.rule("PRATT", "G-PRATT: with consume(L, m) read off the guard of each operator-loop arm of rule_X::rec: a left-associative infix branch has "
                      "not consume(L, R), a right-associative one consume(L, R) - whether it lists one `right` token or several; for a branch i "
                      "written before j: not consume(L_j, R_i) and consume(L_i, R_j) for every operand minimum R (infix right operand, prefix "
                      "operand); the outermost call takes every operator; arms and grammar branches correspond one to one by operator tokens")
    insts = ctx.instances(with_corpus=True)
    n = 0
    for inst in insts:
        n += pratt.check_instance(inst, rep)
    rep.count("parser instances (workspace + corpus)", len(insts))
    rep.count("left-recursive rules", n)
    rep.floor("PRATT", 21, "left-recursive rules")
    common.corpus_note(ctx, rep)
    rep.assume("the Pratt loop template itself (open_before(lhs) / close / continue) is covered by the tree rules of C01/C02; G-PRATT decides the "
               "numeric side: which operator an invocation takes")
