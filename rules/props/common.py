"""Shared drivers for the property modules: S-rules over every skeleton instance, G-rules (GPAI) over every
generated parser of the workspace and the corpus."""
from .. import skel, gpai

G_TEXT = {
    "P1": "GPAI: at every call of Parser::advance / advance_with_error in a generated rule function the set of possible current "
          "tokens contains no end-of-input token (consuming at the end would push a phantom token node with an out-of-range span index)",
    "P2": "GPAI: every cycle of every loop in a generated rule function consumes a token on every path (callees count only for "
          "entry tokens with which they cannot return without consuming)",
    "P3": "GPAI: every cycle in the call graph of rule functions consumes a token between function entry and the recursive call",
    "E1": "GPAI: advance(false) is only called where the current token was tested since the last consumption (no blind consumption)",
    "F0": "GPAI fail-closed: every statement shape in generated rule code is one the interpreter has a transfer function for "
          "(no direct cursor store, no non-constant flag store, no unresolvable call, no unknown skeleton method)",
    "F1": "GPAI: a rule function entered with in_ordered_choice clear returns with it clear on every path",
    "F2": "GPAI: no call of Parser::error / advance_with_error and no diagnostic push where in_ordered_choice may be set",
    "F3": "GPAI: no semantic action runs where in_ordered_choice may be set (an attempt that may be undone has no side effects)",
    "F4": "GPAI: for every create_node callback that can fire where in_ordered_choice may be set, the instance's delete_node "
          "dispatcher has an arm for that node kind",
    "F5": "GPAI: the Option result of a rule function called where in_ordered_choice may be set is branched on (`?` never dropped)",
    "F8": "GPAI: the error-suppression flag Parser.error_since_advance is not set where in_ordered_choice may be set (the snapshot does not "
          "cover it: a failed attempt would leave error reporting switched off)",
    "F6": "GPAI: open_before executed inside an undoable attempt takes a mark created after the attempt's snapshot "
          "(an insertion below the snapshot cannot be undone by truncation)",
}

_G = {}


def analyse(inst):
    g = _G.get(inst.label)
    if g is None:
        g = _G[inst.label] = gpai.analyse_instance(inst)
    return g


def g_rules(ctx, rep, wanted, floors=None):
    """evaluate the GPAI rules `wanted` on every instance; F0 (fail closed) always rides along"""
    insts = ctx.instances(with_corpus=True)
    wanted = list(wanted) + ["F0"]
    for rid in wanted:
        rep.rule(rid, G_TEXT[rid])
    nfun = 0
    for inst in insts:
        g = analyse(inst)
        nfun += len(inst.rules)
        for rid in wanted:
            if rid == "F0":
                continue
            if rid == "P3":
                for n in sorted(inst.rules):
                    rep.ok(rid, "%s %s" % (inst.label, n))
                continue
            for s in sorted(g.sites.get(rid, ()), key=str):
                rep.ok(rid, "%s %s" % (inst.label, " ".join(str(x) for x in s)))
        rep.ok("F0", "%s: %d rule functions interpreted, %d contexts" % (inst.label, len(inst.rules), g.stats.get("contexts", 0)))
        for (rule, key), f in sorted(g.findings.items()):
            if rule in wanted:
                # sites counted as holding above: a finding replaces one of them
                r = rep.rules[rule]
                if r["discharged"] > 0 and rule != "F0":
                    r["discharged"] -= 1
                    r["obligations"] -= 1
                    r["nontrivial"] -= 1
                rep.violation(rule, "%s|%s" % (inst.label, key), f.msg, f.site, f.witness)
    rep.count("generated rule functions", nfun)
    rep.count("parser instances (workspace + corpus)", len(insts))
    for rid, n in (floors or {}).items():
        rep.floor(rid, n, "sites")
    corpus_note(ctx, rep)
    return insts


def corpus_note(ctx, rep):
    us, crep = ctx.corpus()
    gs = crep["grammars"]
    rep.extra["corpus"] = {
        "grammars": [g["name"] for g in gs],
        "accepted": sum(1 for g in gs if g["status"] == "accepted"),
        "not_type_checking": sorted(crep["typecheck_failures"]),
    }
    rep.extra["exhaustive"] = False
    rep.assume("rule-function rules hold for the grammars analysed (10 workspace grammars + the corpus), not for all grammars; "
               "skeleton rules hold for every grammar because the skeleton is shared text")
    rep.assume("user-written callbacks (predicate_*, action_*, create_node_*, delete_node_*, create_tokens) do not touch parser internals")


def s_rules(ctx, rep, fns, min_instances=30):
    insts = ctx.instances(with_corpus=True)
    rep.count("skeleton instances", len(insts))
    rep.rule("INST", "the skeleton is analysed in every instantiation the build produces: src/frontend/generated.rs, the example "
                     "crates and every accepted corpus grammar")
    for inst in insts:
        rep.ok("INST", inst.label)
    rep.floor("INST", min_instances, "skeleton instances")
    out = {}
    for inst in insts:
        for f in fns:
            f(inst, rep, out)
    return insts
