"""C17 formatting a grammar file never changes what it says."""
from .. import panicrules, fmtrules

LEVEL = "other"
EXHAUSTIVE = True
EXPLANATION = ("Structural clauses of C17 decided on all paths of backend::format, hence for all trees and texts: KEEP (no child of the tree is "
               "dropped unless it is a whitespace token; every token kind's text reaches push_string), BAL (indent signals balance, flag-sensitively), "
               "RAW (raw token text in push_string: dprint's precondition), PANIC (audited panic sites of the formatter and the tree accessors it "
               "uses), LEXFACT and KINDS (the token-definition and node-kind facts those audits rely on are re-read from the lexer attributes and the "
               "self-hosted parser). That the output re-lexes to the same token sequence and draws the same diagnostics is not decided: spacing "
               "and line breaks are chosen by dprint's printer at run time.")


def run(ctx, rep):
    fmtrules.keep_rule(ctx, rep)
    fmtrules.bal_rule(ctx, rep)
    fmtrules.raw_rule(ctx, rep)
    fmtrules.lexfact_rule(ctx, rep)
    fmtrules.kinds_rule(ctx, rep)
    panicrules.evaluate(ctx, rep, ["C17"])
    rep.floor("PANIC", 5, "audited panic sites")
    rep.assume("dprint-core's printer terminates and writes every pushed string exactly once in order (trusted dependency)")
    rep.assume("nesting deeper than dprint-core's u8 indentation level (more than 126 nested brackets) is not analysed")
