"""C20 the language server survives any session and answers from the latest text."""
from .. import shape, panicrules, lsp

LEVEL = "other"
EXHAUSTIVE = True
EXPLANATION = ("Structural clauses of C20, each decided on all paths: (RR) one request, one reply on both sides of the channel pair, Cancel "
               "returns; (PAIR) the request and reply variants of the six Cache methods agree with what the analysis thread produces; (ORDER) "
               "didOpen/didChange invalidate, re-analyse the last text they were given, then fetch diagnostics; (SAME) the server runs the same lex/parse/sema pipeline as the command line and publishes from the vector it filled; (PANIC) no unaudited panic site "
               "in the handlers, the Cache or the analysis thread - table reasons may not assume a valid position or an open document; (SPAN) "
               "every span converted for the client is a lexer/tree span. Agreement of definition/references with the text, hover content and "
               "range containment are not decided (run-time arithmetic inside codespan_lsp).")


def run(ctx, rep):
    lsp.rr_pair(ctx, rep)
    lsp.order_rule(ctx, rep)
    lsp.same_pipeline_rule(ctx, rep)
    panicrules.evaluate(ctx, rep, ["C20"])
    rep.floor("PANIC", 20, "audited panic sites")
    panicrules.span_rule(ctx, rep)
    shape.shape_rule(ctx, rep, panicrules.zones_of)
    rep.assume("documents are identified by file: URIs with a UTF-8 path; protocol messages are well-formed JSON that deserialises for its method")
    rep.assume("the analysis pipeline (lexer, parser, semantic pass, formatter) does not panic: decided under C12 and C17, which share the zone "
               "computation; the main-thread unwraps of send/join and assert!(!is_finished()) are safe iff the analysis thread has no unaudited panic site")
    rep.assume("one consumer thread per document and a main thread that blocks on each reply: there is no schedule-dependent shared state to analyse")
