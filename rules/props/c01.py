"""C01 lossless tree: S1 (BAL), S2, S3, S4 on every skeleton instance; G-P1 on rule functions."""
from .. import skel
from . import common

LEVEL = "other"
EXHAUSTIVE = False
EXPLANATION = ("Static analysis of the MIR of every instance of the runtime skeleton: cursor/tree balance on all paths (S1), "
               "completion at end of input (S2), snapshot/restore symmetry (S3), node-vector mutation discipline (S4), and no "
               "consumption at end of input in generated rule functions (G-P1, token-set abstract interpretation). S5: a pending error node is closed before any other tree operation (a node inserted into an open error node makes a token appear twice); G-F2: no error report (which opens an error node) while an ordered-choice attempt can still be revoked (its mark would survive the truncation). S21: parse_rule opens the root node before init_skip, advance or the rule closure can push anything (tokens pushed earlier lie outside the tree). Decides structural "
               "necessary conditions of losslessness for all inputs; does not decide that the child iterator reaches every pushed node.")


def run(ctx, rep):
    common.s_rules(ctx, rep, [
        lambda i, r, o: skel.s1_balance(i, r),
        lambda i, r, o: skel.s2_complete(i, r),
        lambda i, r, o: skel.s3_snapshot(i, r),
        lambda i, r, o: skel.s4_nodes(i, r),
        lambda i, r, o: skel.s5_errnode(i, r),
        lambda i, r, o: skel.s21_root_first(i, r),
    ])
    common.g_rules(ctx, rep, ["P1", "F6", "F2"], floors={"P1": 500})
