"""C01 lossless tree: S1 (BAL), S2, S3, S4 on every skeleton instance; G-P1 on rule functions."""
from .. import skel

LEVEL = "other"
EXPLANATION = ("Static analysis of the MIR of every instance of the runtime skeleton: cursor/tree balance on all paths (S1), "
               "completion at end of input (S2), snapshot/restore symmetry (S3), node-vector mutation discipline (S4), and no "
               "consumption at end of input in generated rule functions (G-P1). Decides the structural necessary conditions of "
               "losslessness for all inputs; does not decide that the child iterator reaches every pushed node.")


def run(ctx, rep):
    insts = ctx.instances(with_corpus=ctx.with_corpus)
    rep.count("skeleton instances", len(insts))
    for inst in insts:
        skel.s1_balance(inst, rep)
        skel.s2_complete(inst, rep)
        skel.s3_snapshot(inst, rep)
        skel.s4_nodes(inst, rep)
    rep.floor("S1", 11 * 20, "functions")
    rep.assume("user-written callbacks (predicate_*, action_*, create_node_*, create_tokens) do not touch parser internals")
