import os
"""GPAI: abstract interpretation of generated rule functions (DESIGN.md section 2.4).

Abstract state = set of disjuncts (T, consumed, flag, vals, loops, snap):
  T        possible values of Parser.current (subset of the Token variants that can ever be current)
  consumed a consuming call happened since function entry
  flag     Parser.in_ordered_choice (0/1)
  vals     known small values of locals (bool temporaries of matches!, Option results of rule calls)
  loops    loop headers entered since the last consumption (a back edge into one of them = cycle without progress)
  snap     (T, consumed, loops) captured at the last get_state
Disjuncts with the same (consumed, flag, vals, loops, snap) are merged by joining T.
Summaries of rule functions / attempt closures are memoised per (body, entry T, entry flag) and computed to a
fixpoint over the (possibly recursive) call graph.
"""
from collections import defaultdict, deque
from .facts import MissingAnchor, clean
from .prov import Prov, show, walk, is_field, mentions_field
from . import flow, skel
from .skel import P, short, fn_tail, is_call

CONSUMING = ("Parser::advance", "Parser::advance_with_error")
PURE_SKELETON = ("Parser::error", "Parser::open", "Parser::close", "Parser::close_root", "Parser::open_before", "Parser::mark",
                 "Parser::get_state", "Parser::active_error", "Parser::peek", "Parser::peek_left", "Parser::span", "Parser::create_node",
                 "Parser::close_error_node", "Parser::is_skipped", "Parser::delete_node")


def _places(x, out):
    if isinstance(x, dict):
        if isinstance(x.get("l"), int) and isinstance(x.get("p"), list):
            out.add(x["l"])
            for q in x["p"]:
                _places(q, out)
            return
        for v in x.values():
            _places(v, out)
    elif isinstance(x, list):
        for v in x:
            _places(v, out)


_LIVE = {}


def live_in(body):
    """classic backward liveness of MIR locals per block (used only to forget dead tracked constants)"""
    c = _LIVE.get(id(body))
    if c is not None:
        return c
    use, dfn = {}, {}
    for b, blk in enumerate(body.blocks):
        u, d = set(), set()
        def rd(x):
            tmp = set()
            _places(x, tmp)
            for l in tmp:
                if l not in d:
                    u.add(l)
        for st in blk["s"]:
            if "rv" in st:
                rd(st["rv"])
                a = st["a"]
                if a["p"]:
                    rd(a)
                else:
                    d.add(a["l"])
            else:
                rd(st)
        t = blk["t"]
        dest = t.get("dest")
        rd({k: v for k, v in t.items() if k != "dest"})
        if dest is not None:
            if dest["p"]:
                rd(dest)
            else:
                d.add(dest["l"])
        if t.get("t") == "return":
            if 0 not in d:
                u.add(0)
        use[b], dfn[b] = u, d
    live = {b: set(use[b]) for b in use}
    changed = True
    succs = {b: [x for x, _ in body.succ_edges(b)] for b in use}
    while changed:
        changed = False
        for b in reversed(range(len(body.blocks))):
            out = set()
            for s_ in succs[b]:
                out |= live[s_]
            n = use[b] | (out - dfn[b])
            if n != live[b]:
                live[b] = n
                changed = True
    _LIVE[id(body)] = live
    return live


class Finding:
    __slots__ = ("rule", "key", "msg", "site", "witness")

    def __init__(self, rule, key, msg, site, witness=None):
        self.rule, self.key, self.msg, self.site, self.witness = rule, key, msg, site, witness


class Gpai:
    def __init__(self, inst):
        self.inst = inst
        self.unit = inst.unit
        self.tok = inst.token_adt()
        variants = self.unit.enum_variants(self.tok)
        if not variants:
            raise MissingAnchor("%s: Token enum table missing" % inst.label)
        self.variants = variants
        self.discr = {v["d"]: v["n"] for v in self.unit.adts[self.tok]["variants"]}
        self.skip = self._skip_set()
        self.END = frozenset(v for v in variants if v.startswith("EOF"))
        self.U = frozenset(v for v in variants if v not in self.skip)
        self.memo = {}          # key -> frozenset of exits
        self.deps = defaultdict(set)   # callee key -> caller keys
        self.findings = {}      # (rule,key) -> Finding
        self.nc_edges = defaultdict(dict)  # key -> {callee key: tokens with which it is reached without consumption since entry}
        self.stats = defaultdict(int)
        self.body_kind = {}
        self.sites = defaultdict(set)   # rule -> set of site keys evaluated (for evidence)
        self.flag_at_entry = {}
        self._check_summaries()
        self.dispatch_create = self._dispatcher("Parser::create_node")
        self.dispatch_delete = self._dispatcher("Parser::delete_node")
        self.in_progress = set()
        self.work = deque()

    # ---- instance facts ----------------------------------------------------------------------
    def _skip_set(self):
        isk = self.inst.fn("Parser::is_skipped")
        sw = skel.skip_set_of_switch(self.inst, isk, lambda e: e[0] == "param")
        s = set()
        for b, t, by in sw:
            for tgt, vs in by.items():
                for pt, it in flow.points(isk, tgt):
                    if "rv" in it and it["a"]["l"] == 0 and P(isk).rvalue(it["rv"]) == ("const", "bool", 1):
                        s |= vs
        if "Error" not in s:
            raise MissingAnchor("%s: cannot read the skip set from is_skipped" % self.inst.label)
        return frozenset(s)

    def _check_summaries(self):
        """the effect summaries GPAI uses for skeleton methods are checked on this instance"""
        tw = skel.field_writes_transitive(self.inst)
        self.summary_viol = []
        cursor = {("Parser", "pos"), ("Parser", "current")}
        flag = ("Parser", "in_ordered_choice")
        for rel, ws in tw.items():
            if not rel.startswith("Parser::") and not rel.startswith("CstData::"):
                continue
            if flag in ws:
                self.summary_viol.append((rel, "writes Parser.in_ordered_choice"))
            if rel in CONSUMING:
                if not cursor <= ws:
                    self.summary_viol.append((rel, "does not move the cursor"))
            elif rel in ("Parser::set_state", "Parser::init_skip", "Parser::parse_rule", "Parser::new_with_context", "Parser::parse", "Parser::new") or rel.startswith("Parser::parse_"):
                pass
            elif ws & cursor:
                self.summary_viol.append((rel, "moves the cursor (%s) but is not known to GPAI as a consuming primitive" % sorted(ws & cursor)))

    def _dispatcher(self, name):
        """variants of Rule that have an explicit arm calling a callback in create_node / delete_node: Rule variant -> callback"""
        b = self.inst.fns.get(name)
        out = {}
        if b is None:
            return out
        rule_adt = None
        for path in self.unit.adts:
            if path == self.inst.adt("Rule"):
                rule_adt = path
        pr = P(b)
        for blk in b.reachable():
            t = b.term(blk)
            if t["t"] == "switch":
                e = pr.operand(t["d"])
                if e[0] == "discr" and short(e[2]) == "Rule":
                    for v, tgt in t["arms"]:
                        vn = self.unit.enum_variant(rule_adt, v)
                        # callback called on this arm before the join
                        tt = b.term(tgt)
                        if tt["t"] == "call":
                            ce = pr.call_expr(tt)
                            out[vn] = ce[3].rsplit("::", 1)[-1]
        return out

    # ---- findings ---------------------------------------------------------------------------
    def report(self, rule, key, msg, body, pt, witness=None):
        k = (rule, key)
        if k not in self.findings:
            self.findings[k] = Finding(rule, key, msg, skel.site(body, pt) if pt else "%s:%d" % (body.file, body.line), witness)

    def relname(self, body):
        n = body.name
        pre = self.inst.prefix + "::" if self.inst.prefix else ""
        if n.startswith(pre):
            n = n[len(pre):]
        return n

    # ---- classification of callees ------------------------------------------------------------
    def classify(self, t):
        k = t["f"].get("k")
        if not k or "fn" not in k:
            return ("indirect", None)
        rid = k.get("rid") or k["fid"]
        name = clean(k["res"]) if k.get("res") else clean(k["fn"])
        decl = clean(k["fn"])
        b = self.unit.bodies.get(rid)
        tail = fn_tail(name)
        if "ParserCallbacks::" in decl or "ParserCallbacks>::" in decl:
            return ("callback", decl.rsplit("::", 1)[-1])
        if b is not None and b.from_generated():
            rel = self.relname(b)
            if rel.startswith("Parser::rule_"):
                return ("rulefn", b)
            if rel in self.inst.fns:
                return ("skeleton", rel)
        m = decl.rsplit("::", 1)[-1]
        if "ParserCallbacks" in decl or (b is not None and not b.from_generated() and "Parser" in name):
            return ("callback", m)
        return ("other", name)

    # ---- the interpreter ----------------------------------------------------------------------
    def summary(self, body, T, flag, caller_key=None):
        # Contexts are keyed by (function, entry flag).  The entry token set is the union of the sets of all call
        # sites: inside a function the token-dependent behaviour is decided by switches on `current`, so the analysis
        # stays exact per token, and a caller intersects its own T with the T of each non-consuming exit.
        key = (body.id, flag)
        if caller_key is not None:
            self.deps[key].add(caller_key)
        if key not in self.memo:
            self.memo[key] = frozenset()
            self.keyinfo[key] = body
            self.entryT[key] = T
            self.solve(key)
        elif not T <= self.entryT[key]:
            self.entryT[key] = self.entryT[key] | T
            if key not in self.in_progress:
                self.solve(key)
        elif key in self.dirty and key not in self.in_progress:
            self.solve(key)
        return self.memo[key]

    keyinfo = None

    def solve(self, key):
        """depth-first: a callee's summary is complete (up to recursion) before its caller continues"""
        self.in_progress.add(key)
        self.dirty.discard(key)
        body = self.keyinfo[key]
        while True:
            self.iterations += 1
            if self.iterations > 100000:
                raise RuntimeError("GPAI did not converge on %s" % self.inst.label)
            T0 = self.entryT[key]
            exits = self.analyse(body, key)
            if exits == self.memo[key] and self.entryT[key] == T0:
                break
            if exits == self.memo[key]:
                continue
            self.memo[key] = exits
            for c in self.deps.get(key, ()):
                if c not in self.in_progress:
                    self.dirty.add(c)
        self.in_progress.discard(key)

    def run_all(self, roots):
        """roots: list of (body, T, flag)"""
        import sys
        sys.setrecursionlimit(max(20000, sys.getrecursionlimit()))
        if self.keyinfo is None:
            self.keyinfo = {}
            self.entryT = {}
            self.dirty = set()
            self.iterations = 0
        for body, T, flag in roots:
            self.summary(body, T, flag)
        while self.dirty:
            k = self.dirty.pop()
            self.solve(k)
        self.stats["contexts"] = len(self.memo)
        self.stats["iterations"] = self.iterations

    def analyse(self, body, key):
        _, flag0 = key
        T0 = self.entryT[key]
        pr = P(body)
        loops = {L["header"]: L for L in body.loops()}
        LIVE = live_in(body)
        # state: dict block -> dict(dkey -> T)   dkey = (consumed, flag, vals, loops, snap)
        IN = defaultdict(dict)
        d0 = (False, flag0, (), frozenset(), None)
        IN[0][d0] = T0
        wl = deque([0])
        inwl = {0}
        exits = {}
        came = {}
        relname = self.relname(body)
        ret_opt = body.ret_ty().startswith("std::option::Option")
        steps = 0

        def witness(b, dk):
            path = [b]
            cur = (b, dk)
            seen = set()
            while cur in came and cur not in seen and len(path) < 60:
                seen.add(cur)
                cur = came[cur]
                path.append(cur[0])
            path.reverse()
            out = []
            for x in path:
                if not out or out[-1] != x:
                    out.append(x)
            return flow.describe_path(body, [(x, 0) for x in out], limit=16)

        while wl:
            b = wl.popleft()
            inwl.discard(b)
            steps += 1
            if steps > 400000:
                raise RuntimeError("GPAI: too many steps in %s" % body.name)
            states = list(IN[b].items())
            blk = body.blocks[b]
            n = len(blk["s"])
            outs = []  # list of (dkey, T, edge_filter) after terminator; edge_filter = None or set of allowed targets
            for dk, T in states:
                consumed, flag, vals, lps, snap = dk
                vals = dict(vals)
                # loop header bookkeeping
                if b in loops:
                    self.sites["P2"].add((relname, b))
                    if b in lps:
                        self.report("P2", "%s|loop-without-consumption" % relname,
                                    "%s: %s has a loop (header bb%d) that can go round without consuming a token while current in %s: the parser would not terminate" % (
                                        self.inst.label, relname, b, self.fmtT(T)), body, (b, 0), witness(b, dk))
                        continue
                    lps = lps | {b}
                dead = False
                for i in range(n):
                    st = blk["s"][i]
                    if "rv" not in st:
                        continue
                    pl = st["a"]
                    rv = st["rv"]
                    if not pl["p"]:
                        l = pl["l"]
                        v = self.const_of(rv, vals)
                        if v is None:
                            vals.pop(l, None)
                        else:
                            vals[l] = v
                    else:
                        # field store
                        projs = [x for x in pl["p"] if isinstance(x, dict)]
                        if projs and "f" in projs[-1] and pl["p"][-1] is projs[-1]:
                            adt = short(projs[-1]["adt"]) if projs[-1]["adt"] else ""
                            fld = projs[-1]["n"]
                            if adt == "Parser" and fld == "in_ordered_choice":
                                v = self.const_of(rv, vals)
                                if v is None:
                                    self.report("F0", "%s|flag-nonconst" % relname, "%s: %s writes in_ordered_choice with a non-constant" % (self.inst.label, relname), body, (b, i))
                                else:
                                    flag = v
                            elif adt == "Parser" and fld == "error_since_advance":
                                self.sites["F8"].add((relname, b))
                                if flag == 1:
                                    self.report("F8", "%s|error-flag-in-choice" % relname,
                                                "%s: %s sets Parser.error_since_advance while in_ordered_choice is set: set_state does not restore the flag, so after the "
                                                "attempt is undone the next real mismatch is swallowed as if it had already been reported (an error node without a "
                                                "diagnostic)" % (self.inst.label, relname), body, (b, i), witness(b, dk))
                            elif adt == "Parser" and fld in ("pos", "current"):
                                self.report("F0", "%s|cursor-store" % relname, "%s: %s writes Parser.%s directly" % (self.inst.label, relname, fld), body, (b, i))
                            elif projs[-1]["adt"].startswith("closure:") or not adt:
                                pass
                            # stores through upvars to captured locals are handled by F7 separately
                t = blk["t"]
                k = t["t"]
                if k == "call":
                    res = self.do_call(body, pr, b, t, T, consumed, flag, vals, lps, snap, key, relname, witness, dk)
                    for (T2, consumed2, flag2, vals2, lps2, snap2) in res:
                        outs.append(((consumed2, flag2, self.freeze(vals2), lps2, snap2), T2, None, dk))
                elif k == "switch":
                    for tgt, lab, T2, flag2, vals2 in self.do_switch(body, pr, b, t, T, flag, vals):
                        outs.append(((consumed, flag2, self.freeze(vals2), lps, snap), T2, {tgt}, dk))
                elif k == "return":
                    ret = "unit"
                    if ret_opt:
                        ret = {0: "None", 1: "Some"}.get(vals.get(0), "?")
                    ek = (consumed, flag, ret)
                    exits[ek] = (exits.get(ek, frozenset()) | T)
                    if os.environ.get("GPAI_DEBUG") and os.environ["GPAI_DEBUG"] in relname and not consumed:
                        print("GPAI_DEBUG", relname, ek, sorted(T), witness(b, dk))
                    if flag0 == 0 and flag == 1:
                        self.report("F1", "%s|returns-with-flag-set" % relname,
                                    "%s: %s, entered outside any ordered choice, can return with in_ordered_choice still set: later mismatches in shared rules "
                                    "return None to callers that ignore it instead of being reported" % (self.inst.label, relname), body, (b, n), witness(b, dk))
                    self.sites["F1"].add((relname, flag0))
                elif k in ("goto", "drop", "assert"):
                    outs.append(((consumed, flag, self.freeze(vals), lps, snap), T, None, dk))
                else:
                    pass  # unreachable / diverging
            # propagate
            for dk2, T2, only, fromdk in outs:
                for tgt, lab in body.succ_edges(b):
                    if only is not None and tgt not in only:
                        continue
                    # leaving a loop: forget its header
                    c2, f2, v2, l2, s2 = dk2
                    l3 = frozenset(h for h in l2 if tgt in loops[h]["body"]) if l2 else l2
                    # drop values of temporaries that are dead (not used in target) -- keep it simple: keep all named + small
                    lv = LIVE[tgt]
                    v3 = tuple(kv for kv in v2 if kv[0] in lv)
                    dk3 = (c2, f2, v3, l3, s2)
                    cur = IN[tgt].get(dk3)
                    newT = T2 if cur is None else (cur | T2)
                    if cur is None or newT != cur:
                        IN[tgt][dk3] = newT
                        came.setdefault((tgt, dk3), (b, fromdk))
                        if tgt not in inwl:
                            wl.append(tgt)
                            inwl.add(tgt)
        self.stats["blocks_visited"] += steps
        return frozenset((c, f, r, T) for (c, f, r), T in exits.items())

    def freeze(self, vals):
        return tuple(sorted(vals.items()))

    def fmtT(self, T):
        if T == self.U:
            return "{any token}"
        s = sorted(T)
        return "{" + ", ".join(s[:8]) + (", ..." if len(s) > 8 else "") + "}"

    def const_of(self, rv, vals):
        r = rv["r"]
        if r == "use":
            o = rv["o"]
            if "k" in o:
                k = o["k"]
                if k.get("ty") == "bool" and k.get("v") is not None:
                    return k["v"]
                return None
            p = o.get("c") or o.get("m")
            if p is not None and not p["p"]:
                return vals.get(p["l"])
            return None
        if r == "ref" and rv.get("bk") == "shared":
            # a shared reference to a tracked local (`(&result).is_some()`): the referent's known variant is what the callee sees
            p = rv["p"]
            if not p["p"]:
                return vals.get(p["l"])
            return None
        if r == "agg" and rv.get("k") == "adt":
            a = short(rv["adt"])
            if a == "Option":
                return 1 if rv["v"] == "Some" else 0
            return None
        if r == "discr":
            p = rv["p"]
            if not p["p"]:
                return vals.get(p["l"])
            return None
        if r == "un" and rv["op"] == "Not":
            o = rv["o"]
            p = o.get("c") or o.get("m")
            if p is not None and not p["p"] and p["l"] in vals:
                return 1 - vals[p["l"]]
        return None

    def arg_local(self, o):
        p = o.get("c") or o.get("m")
        if p is not None and not p["p"]:
            return p["l"]
        return None

    def do_switch(self, body, pr, b, t, T, flag, vals):
        d = t["d"]
        l = self.arg_local(d)
        arms = t["arms"]
        # 1. known value
        if l is not None and l in vals:
            v = vals[l]
            tgt = t["else"]
            for av, at in arms:
                if av == v:
                    tgt = at
            yield tgt, None, T, flag, vals
            return
        e = pr.operand(d)
        # 2. token switch
        if e[0] == "discr" and is_field(e[1], "Parser", "current"):
            listed = set()
            bytgt = defaultdict(set)
            for av, at in arms:
                vn = self.discr.get(av)
                listed.add(vn)
                bytgt[at].add(vn)
            for at, vs in bytgt.items():
                T2 = T & frozenset(vs)
                if T2:
                    yield at, None, T2, flag, vals
            T2 = T - frozenset(listed)
            if T2:
                yield t["else"], None, T2, flag, vals
            return
        # 3. flag switch
        if is_field(e, "Parser", "in_ordered_choice"):
            tgt = t["else"]
            for av, at in arms:
                if av == flag:
                    tgt = at
            yield tgt, None, T, flag, vals
            return
        # 4. unknown: all edges
        seen = set()
        for tgt, lab in body.succ_edges(b):
            if tgt in seen:
                continue
            seen.add(tgt)
            v2 = vals
            if l is not None:
                v2 = dict(vals)
                if lab[0] == "v":
                    v2[l] = lab[1]
            yield tgt, None, T, flag, v2

    def do_call(self, body, pr, b, t, T, consumed, flag, vals, lps, snap, key, relname, witness, dk):
        kind, what = self.classify(t)
        dest = t["dest"]["l"] if not t["dest"]["p"] else None
        vals = dict(vals)
        if dest is not None:
            vals.pop(dest, None)
        n = len(body.blocks[b]["s"])
        pt = (b, n)
        if kind == "skeleton":
            rel = what
            if rel in CONSUMING:
                iserr = rel == "Parser::advance_with_error"
                errflag = None
                if not iserr:
                    errflag = pr.operand(t["args"][1])
                self.sites["P1"].add((relname, b))
                if T & self.END:
                    self.report("P1", "%s|%s-at-end-of-input" % (relname, rel.split("::")[1]),
                                "%s: %s can call %s while current is %s: consuming at end of input pushes an end-of-input token node whose span index is out of range" % (
                                    self.inst.label, relname, rel, self.fmtT(T & self.END)), body, pt, witness(b, dk))
                if iserr:
                    self.sites["F2"].add((relname, b))
                    if flag == 1:
                        self.report("F2", "%s|advance_with_error-in-choice" % relname,
                                    "%s: %s can report and consume (advance_with_error) while in_ordered_choice is set" % (self.inst.label, relname), body, pt, witness(b, dk))
                else:
                    self.sites["E1"].add((relname, b))
                    if T == self.U and len(self.U) > 1:
                        self.report("E1", "%s|blind-advance" % relname, "%s: %s consumes a token with advance() without having tested it" % (self.inst.label, relname), body, pt, witness(b, dk))
                return [(self.U, True, flag, vals, frozenset(), snap)]
            if rel == "Parser::error":
                self.sites["F2"].add((relname, b))
                if flag == 1:
                    self.report("F2", "%s|error-in-choice" % relname,
                                "%s: %s can call Parser::error while in_ordered_choice is set (an attempt that may be undone must fail with None, not report)" % (self.inst.label, relname), body, pt, witness(b, dk))
                return [(T, consumed, flag, vals, lps, snap)]
            if rel == "Parser::get_state":
                return [(T, consumed, flag, vals, lps, (T, consumed, lps))]
            if rel == "Parser::set_state":
                if snap is None:
                    self.report("F0", "%s|set_state-without-get_state" % relname, "%s: %s calls set_state without a dominating get_state" % (self.inst.label, relname), body, pt)
                    return [(self.U, consumed, flag, vals, lps, snap)]
                return [(snap[0], snap[1], flag, vals, snap[2], snap)]
            if rel == "Parser::open_before":
                self.sites["F6"].add((relname, b))
                if flag == 1:
                    m = pr.operand(t["args"][1])
                    if any(x[0] == "field" and x[2].startswith("closure:") for x in walk(m)):
                        self.report("F6", "%s|open_before-captured-mark" % relname,
                                    "%s: %s inserts a node before a mark captured from before the attempt's snapshot (`%s`) while the attempt can still be undone: "
                                    "set_state truncates by length and cannot remove an insertion below the snapshot" % (self.inst.label, relname, show(m, 80)), body, pt, witness(b, dk))
                return [(T, consumed, flag, vals, lps, snap)]
            if rel == "Parser::create_node":
                self.check_create(body, pr, t, flag, relname, pt, None, witness, b, dk)
                return [(T, consumed, flag, vals, lps, snap)]
            if rel in PURE_SKELETON or rel.startswith("CstData::") or rel.startswith("Cst::"):
                return [(T, consumed, flag, vals, lps, snap)]
            self.report("F0", "%s|unsupported-skeleton-call|%s" % (relname, rel), "%s: %s calls %s, for which GPAI has no summary" % (self.inst.label, relname, rel), body, pt)
            return [(self.U, True, flag, vals, frozenset(), snap)]
        if kind == "rulefn":
            callee = what
            ckey = (callee.id, flag)
            if not consumed:
                self.nc_edges[key][ckey] = self.nc_edges[key].get(ckey, frozenset()) | T
            ex = self.summary(callee, T, flag, key)
            out = []
            is_opt = callee.ret_ty().startswith("std::option::Option")
            crel = self.relname(callee)
            if is_opt and flag == 1 and ".{closure" not in crel and "::{closure" not in crel:
                self.sites["F5"].add((relname, b))
                if not self.result_branched(body, pr, b, t):
                    self.report("F5", "%s|ignores-result|%s" % (relname, crel),
                                "%s: %s calls %s while in_ordered_choice may be set and ignores its Option result: a failed attempt would continue as if it had matched" % (
                                    self.inst.label, relname, crel), body, pt, witness(b, dk))
            for (c2, f2, ret, T2) in ex:
                v2 = dict(vals)
                if dest is not None and ret in ("Some", "None"):
                    v2[dest] = 1 if ret == "Some" else 0
                if c2:
                    out.append((T2, True, f2, v2, frozenset(), snap))
                else:
                    T3 = T & T2
                    if T3:
                        out.append((T3, consumed, f2, v2, lps, snap))
            return out
        if kind == "callback":
            m = what
            if m.startswith("action_"):
                self.sites["F3"].add((relname, b))
                if flag == 1:
                    self.report("F3", "%s|action-in-choice|%s" % (relname, m), "%s: %s runs semantic action %s while in_ordered_choice may be set (the attempt can be undone, the action cannot)" % (self.inst.label, relname, m), body, pt, witness(b, dk))
            elif m.startswith("create_node_"):
                self.check_create(body, pr, t, flag, relname, pt, m, witness, b, dk)
            return [(T, consumed, flag, vals, lps, snap)]
        if kind == "indirect":
            self.report("F0", "%s|indirect-call" % relname, "%s: %s makes an indirect call GPAI cannot resolve" % (self.inst.label, relname), body, pt)
            return [(self.U, True, flag, vals, frozenset(), snap)]
        # other: std / library calls
        name = what
        tail = fn_tail(name)
        decl = clean(t["f"]["k"]["fn"])
        if tail in ("Vec::push",) or decl.endswith("Vec::push"):
            a0 = pr.operand(t["args"][0])
            isdiag = (a0[0] in ("param", "local") and "Diagnostic" in body.local_ty(a0[1])) or (a0[0] == "field" and a0[3] == "diags")
            if isdiag:
                self.sites["F2"].add((relname, b))
                if flag == 1:
                    self.report("F2", "%s|diag-push-in-choice" % relname, "%s: %s pushes a diagnostic while in_ordered_choice is set" % (self.inst.label, relname), body, pt, witness(b, dk))
        if dest is not None:
            if decl.endswith("Option::is_some") or decl.endswith("Option::is_none"):
                l = self.arg_local(t["args"][0])
                if l is not None and l in vals:
                    vals[dest] = vals[l] if decl.endswith("is_some") else 1 - vals[l]
            elif decl.endswith("Try::branch"):
                l = self.arg_local(t["args"][0])
                if l is not None and l in vals:
                    vals[dest] = 0 if vals[l] == 1 else 1
            elif decl.endswith("FromResidual::from_residual") and dest == 0:
                vals[dest] = 0
        return [(T, consumed, flag, vals, lps, snap)]

    def result_branched(self, body, pr, b, t):
        """the Option returned by this call is inspected (Try::branch / is_some / match) before being dropped"""
        dest = t["dest"]
        if dest["p"]:
            return True
        l = dest["l"]
        for bb in body.reachable():
            blk = body.blocks[bb]
            for st in blk["s"]:
                if "rv" in st:
                    rv = st["rv"]
                    if rv["r"] == "discr" and rv["p"]["l"] == l:
                        return True
                    if rv["r"] == "use":
                        p = rv["o"].get("c") or rv["o"].get("m")
                        if p and p["l"] == l and not st["a"]["p"]:
                            # moved into another local: follow one step
                            l2 = st["a"]["l"]
                            for b3 in body.reachable():
                                t3 = body.term(b3)
                                if t3["t"] == "call" and any(self.arg_local(a) == l2 for a in t3["args"]):
                                    d3 = clean(t3["f"]["k"]["fn"]) if t3["f"].get("k") and "fn" in t3["f"]["k"] else ""
                                    if d3.endswith("Try::branch") or d3.endswith("is_some") or d3.endswith("is_none"):
                                        return True
            tt = blk["t"]
            if tt["t"] == "call" and any(self.arg_local(a) == l for a in tt["args"]):
                d3 = clean(tt["f"]["k"]["fn"]) if tt["f"].get("k") and "fn" in tt["f"]["k"] else ""
                if d3.endswith("Try::branch") or d3.endswith("is_some") or d3.endswith("is_none"):
                    return True
        return False

    def check_create(self, body, pr, t, flag, relname, pt, cb, witness, b, dk):
        """F4: a node created while the attempt can still be undone must have a delete callback"""
        self.sites["F4"].add((relname, pt[0]))
        if flag != 1:
            return
        if cb is None:
            # create_node(kind, ...): the dispatcher must cover every kind that has a create arm -> every Rule variant
            missing = sorted(set(self.dispatch_create) - set(self.dispatch_delete) - {None})
            kind = pr.operand(t["args"][1])
            if kind[0] == "agg" and kind[1][0] == "adt":
                missing = [kind[1][2]] if kind[1][2] not in self.dispatch_delete else []
            if missing:
                self.report("F4", "%s|create_node-without-delete|%s" % (relname, ",".join(missing)),
                            "%s: %s announces a node of dynamic kind via create_node while in_ordered_choice may be set, but delete_node has no arm for %s" % (self.inst.label, relname, missing), body, pt, witness(b, dk))
            return
        want = "delete_node_" + cb[len("create_node_"):]
        if want not in set(self.dispatch_delete.values()):
            self.report("F4", "%s|%s-without-delete" % (relname, cb),
                        "%s: %s calls %s while in_ordered_choice may be set, but the delete_node dispatcher never calls %s: a discarded node would not be announced as deleted" % (
                            self.inst.label, relname, cb, want), body, pt, witness(b, dk))

    # ---- P3: recursion without consumption -----------------------------------------------------
    def check_p3(self):
        """a cycle of calls none of which is preceded by a consumption, feasible for one and the same current token"""
        toks = set()
        for k, es in self.nc_edges.items():
            for c, T in es.items():
                toks |= T
        reported = set()
        for tok in sorted(toks):
            adj = {k: [c for c, T in es.items() if tok in T] for k, es in self.nc_edges.items()}
            color = {}
            for root in list(adj):
                if root in color:
                    continue
                stack = [(root, iter(adj.get(root, ())))]
                color[root] = 1
                path = [root]
                while stack:
                    k, it = stack[-1]
                    nxt = next(it, None)
                    if nxt is None:
                        color[k] = 2
                        stack.pop()
                        path.pop()
                        continue
                    if color.get(nxt) == 1:
                        cyc = path[path.index(nxt):] + [nxt]
                        names = [self.relname(self.keyinfo[x]) for x in cyc]
                        sig = "->".join(sorted(set(names)))
                        if sig not in reported:
                            reported.add(sig)
                            self.report("P3", "recursion-without-consumption|%s" % sig,
                                        "%s: the rule functions %s can call each other without consuming a token when current is %s: unbounded recursion" % (
                                            self.inst.label, " -> ".join(names), tok), self.keyinfo[nxt], None)
                    elif nxt not in color:
                        color[nxt] = 1
                        stack.append((nxt, iter(adj.get(nxt, ()))))
                        path.append(nxt)


def analyse_instance(inst):
    g = Gpai(inst)
    roots = []
    # entry points: the start rule and every part rule are entered by parse_rule with any current token, flag clear.
    # every other rule function is reached from those with the contexts that occur.
    called = set()
    for n, b in inst.rules.items():
        for bb, t in b.calls():
            pass
    starts = entry_rules(inst)
    for b in starts:
        roots.append((b, g.U, 0))
    g.run_all(roots)
    # rule functions never reached from the start rule (unused): analyse with the universal context so that they are covered too
    reached = {k[0] for k in g.memo}
    extra = [(b, g.U, 0) for n, b in inst.rules.items() if b.id not in reached]
    if extra:
        g.stats["unreached_rules"] = len(extra)
        g.run_all(roots + extra)
    g.check_p3()
    return g


def entry_rules(inst):
    """rule functions called from the closures passed to parse_rule (parse and parse_<part>)"""
    out = []
    for rel, b in inst.fns.items():
        if rel.startswith("Parser::parse") and "{closure" in rel:
            for bb, t in b.calls():
                k = t["f"].get("k")
                if k and "fn" in k:
                    rid = k.get("rid") or k["fid"]
                    cb = inst.unit.bodies.get(rid)
                    if cb is not None and cb.id in {x.id for x in inst.rules.values()}:
                        out.append(cb)
    if not out:
        raise MissingAnchor("%s: no entry rule found (parse -> parse_rule closure)" % inst.label)
    return out
