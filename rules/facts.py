"""Loading of mirfacts output and the per-body CFG utilities every rule uses.

A *unit* is one rustc invocation (one fact file).  Bodies are addressed by their stable id
(`crate::mod::{impl#n}::name`, identical from every crate) and carry a readable `name`
(def_path_str with generic arguments removed) that rules match on.
"""
import json, os, re, glob, sys
from collections import defaultdict

_GEN = re.compile(r"::<[^<>]*>")
_ANG = re.compile(r"<'[a-z_]+>")


def clean(path):
    """def_path_str without generic arguments: Parser::<'a>::advance -> Parser::advance."""
    prev = None
    while prev != path:
        prev = path
        path = _GEN.sub("", path)
    path = _ANG.sub("", path)
    return path


class Body:
    __slots__ = ("unit", "d", "id", "path", "name", "crate", "blocks", "nblocks", "_succ", "_pred", "_idom",
                 "_ipdom", "_defs", "_loops", "_reach", "file", "line", "kind", "argc", "locals", "vars",
                 "_varname", "parent_id", "_rpo", "_calls")

    def __init__(self, unit, d):
        self.unit = unit
        self.d = d
        self.id = d["id"]
        self.path = d["path"]
        self.crate = d["crate"]
        self.name = clean(d["path"])
        self.blocks = d["blocks"]
        self.nblocks = len(self.blocks)
        self.kind = d["dk"]
        self.argc = d["argc"]
        self.locals = d["locals"]
        self.vars = d["vars"]
        self.parent_id = d.get("parent_id")
        loc = d["span"]["l"]
        m = re.match(r"(.*):(\d+):(\d+)$", loc)
        self.file = m.group(1) if m else loc
        self.line = int(m.group(2)) if m else 0
        self._succ = self._pred = self._idom = self._ipdom = self._defs = self._loops = None
        self._reach = self._varname = self._rpo = self._calls = None

    # ---- identity helpers ------------------------------------------------------------
    @property
    def qname(self):
        return self.crate + "::" + self.name

    def from_generated(self):
        return os.path.basename(self.file) == "generated.rs"

    def varname(self, local):
        if self._varname is None:
            self._varname = {}
            for v in self.vars:
                if not v["p"]["p"]:
                    self._varname.setdefault(v["p"]["l"], v["n"])
        return self._varname.get(local)

    def ret_ty(self):
        return self.locals[0]["ty"]

    def local_ty(self, l):
        return self.locals[l]["ty"]

    # ---- CFG -------------------------------------------------------------------------
    def term(self, b):
        return self.blocks[b]["t"]

    def succ_edges(self, b):
        """list of (target, label). Unwind edges are not recorded by the driver."""
        t = self.blocks[b]["t"]
        k = t["t"]
        if k == "goto":
            return [(t["to"], "goto")]
        if k == "switch":
            out = [(tgt, ("v", v)) for v, tgt in t["arms"]]
            out.append((t["else"], ("else", tuple(v for v, _ in t["arms"]))))
            return out
        if k == "call":
            return [(t["to"], "ret")] if t["to"] is not None else []
        if k == "drop":
            return [(t["to"], "drop")]
        if k == "assert":
            return [(t["to"], "ok")]
        return []

    def succ(self, b):
        if self._succ is None:
            self._succ = [[t for t, _ in self.succ_edges(i)] for i in range(self.nblocks)]
        return self._succ[b]

    def pred(self, b):
        if self._pred is None:
            self._pred = [[] for _ in range(self.nblocks)]
            for i in range(self.nblocks):
                for s in self.succ(i):
                    self._pred[s].append(i)
        return self._pred[b]

    def reachable(self):
        """blocks reachable from entry along normal (non-unwind) edges"""
        if self._reach is None:
            seen = {0}
            st = [0]
            while st:
                b = st.pop()
                for s in self.succ(b):
                    if s not in seen:
                        seen.add(s)
                        st.append(s)
            self._reach = seen
        return self._reach

    def rpo(self):
        if self._rpo is None:
            seen = set()
            order = []
            st = [(0, iter(self.succ(0)))]
            seen.add(0)
            while st:
                b, it = st[-1]
                adv = False
                for s in it:
                    if s not in seen:
                        seen.add(s)
                        st.append((s, iter(self.succ(s))))
                        adv = True
                        break
                if not adv:
                    order.append(b)
                    st.pop()
            order.reverse()
            self._rpo = order
        return self._rpo

    def idom(self):
        if self._idom is None:
            order = self.rpo()
            idx = {b: i for i, b in enumerate(order)}
            idom = {0: 0}
            changed = True
            while changed:
                changed = False
                for b in order[1:]:
                    new = None
                    for p in self.pred(b):
                        if p in idom:
                            if new is None:
                                new = p
                            else:
                                a, c = p, new
                                while a != c:
                                    while idx[a] > idx[c]:
                                        a = idom[a]
                                    while idx[c] > idx[a]:
                                        c = idom[c]
                                new = a
                    if new is not None and idom.get(b) != new:
                        idom[b] = new
                        changed = True
            self._idom = idom
        return self._idom

    def dominates(self, a, b):
        """block a dominates block b (reflexive)"""
        idom = self.idom()
        if b not in idom or a not in idom:
            return False
        while True:
            if a == b:
                return True
            if b == 0:
                return False
            b = idom[b]

    def exits(self):
        return [b for b in self.reachable() if self.blocks[b]["t"]["t"] == "return"]

    def ipdom(self):
        """immediate post-dominators w.r.t. a virtual exit joining all `return` blocks
        (diverging blocks -- calls to `!`, unreachable -- are ignored)."""
        if self._ipdom is None:
            EXIT = -1
            reach = self.reachable()
            succ = {b: [s for s in self.succ(b)] for b in reach}
            for b in self.exits():
                succ[b] = [EXIT]
            pred = defaultdict(list)
            for b, ss in succ.items():
                for s in ss:
                    pred[s].append(b)
            # rpo on reverse graph
            seen = {EXIT}
            order = []
            st = [(EXIT, iter(pred[EXIT]))]
            while st:
                b, it = st[-1]
                adv = False
                for s in it:
                    if s not in seen:
                        seen.add(s)
                        st.append((s, iter(pred[s])))
                        adv = True
                        break
                if not adv:
                    order.append(b)
                    st.pop()
            order.reverse()
            idx = {b: i for i, b in enumerate(order)}
            ip = {EXIT: EXIT}
            changed = True
            while changed:
                changed = False
                for b in order[1:]:
                    new = None
                    for p in succ.get(b, []):
                        if p in ip:
                            if new is None:
                                new = p
                            else:
                                a, c = p, new
                                while a != c:
                                    while idx[a] > idx[c]:
                                        a = ip[a]
                                    while idx[c] > idx[a]:
                                        c = ip[c]
                                new = a
                    if new is not None and ip.get(b) != new:
                        ip[b] = new
                        changed = True
            self._ipdom = ip
        return self._ipdom

    def postdominates(self, a, b):
        """a post-dominates b (reflexive); blocks that cannot reach a return are not post-dominated"""
        ip = self.ipdom()
        if b not in ip:
            return False
        while True:
            if a == b:
                return True
            if b == -1:
                return False
            b = ip[b]

    def loops(self):
        """natural loops: list of dict(header, body(set), backs[list of (src)], exits[(from,to)])"""
        if self._loops is None:
            loops = {}
            for b in self.reachable():
                for s in self.succ(b):
                    if self.dominates(s, b):
                        L = loops.setdefault(s, {"header": s, "body": {s}, "backs": []})
                        L["backs"].append(b)
                        st = [b]
                        while st:
                            x = st.pop()
                            if x not in L["body"]:
                                L["body"].add(x)
                                st.extend(self.pred(x))
            out = []
            for h, L in loops.items():
                L["exits"] = [(x, s) for x in L["body"] for s in self.succ(x) if s not in L["body"]]
                out.append(L)
            self._loops = out
        return self._loops

    # ---- definitions -----------------------------------------------------------------
    def defs(self):
        """local -> list of (bb, idx, kind, payload): kind in {'assign','call'}; only whole-local writes"""
        if self._defs is None:
            d = defaultdict(list)
            for bi in self.reachable():
                blk = self.blocks[bi]
                for si, s in enumerate(blk["s"]):
                    if "rv" in s:
                        d[s["a"]["l"]].append((bi, si, "assign" if not s["a"]["p"] else "partial", s))
                    elif "sd" in s:
                        d[s["sd"]["l"]].append((bi, si, "partial", s))
                t = blk["t"]
                if t["t"] == "call":
                    d[t["dest"]["l"]].append((bi, len(blk["s"]), "call" if not t["dest"]["p"] else "partial", t))
            self._defs = d
        return self._defs

    def calls(self):
        """list of (bb, term) for every Call terminator in reachable blocks"""
        if self._calls is None:
            self._calls = [(b, self.blocks[b]["t"]) for b in sorted(self.reachable()) if self.blocks[b]["t"]["t"] == "call"]
        return self._calls

    def loc(self, sp):
        if not sp:
            return "%s:%d" % (self.file, self.line)
        return sp.get("l", "?")


def callee_of(t):
    """(declared name, resolved name, declared id, resolved id) of a call terminator; None for indirect calls"""
    f = t["f"]
    k = f.get("k")
    if not k or "fn" not in k:
        return None
    return (clean(k["fn"]), clean(k["res"]) if k.get("res") else None, k["fid"], k.get("rid"))


class Unit:
    def __init__(self, path):
        self.file = path
        self.bodies = {}
        self.adts = {}
        self.meta = None
        with open(path) as f:
            for line in f:
                d = json.loads(line)
                k = d["k"]
                if k == "crate":
                    self.meta = d
                elif k == "body":
                    b = Body(self, d)
                    self.bodies[b.id] = b
                elif k == "adt":
                    self.adts[d["path"]] = d
        self.crate = self.meta["crate"]
        self.by_name = defaultdict(list)
        for b in self.bodies.values():
            self.by_name[b.name].append(b)

    def find(self, suffix, exact=False):
        """bodies whose readable name equals / ends with `suffix` (on a `::` boundary)"""
        out = []
        for n, bs in self.by_name.items():
            if n == suffix or (not exact and n.endswith("::" + suffix)):
                out.extend(bs)
        return out

    def one(self, suffix):
        r = self.find(suffix)
        if len(r) != 1:
            raise MissingAnchor("%s: expected exactly one body named %s, found %d" % (self.crate, suffix, len(r)))
        return r[0]

    def enum_variant(self, adt, discr):
        a = self.adts.get(adt)
        if not a:
            return None
        for v in a["variants"]:
            if v["d"] == discr:
                return v["n"]
        return None

    def enum_variants(self, adt):
        a = self.adts.get(adt)
        return [v["n"] for v in a["variants"]] if a else None


class MissingAnchor(Exception):
    pass


def read_header(path):
    with open(path) as f:
        return json.loads(f.readline())


def load_units(directory, want=None):
    """Load fact files of a directory.  `want(header) -> bool` filters by the crate header."""
    units = []
    for p in sorted(glob.glob(os.path.join(directory, "*.jsonl"))):
        h = read_header(p)
        if h.get("k") != "crate":
            continue
        if want and not want(h):
            continue
        units.append(Unit(p))
    return units
