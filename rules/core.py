"""Context shared by all property checks: loaded units, parser instances, report/evidence."""
import json, os, sys, time, re, pickle
from collections import defaultdict
from . import extract
from .facts import load_units, Unit, MissingAnchor, callee_of, clean
from .prov import Prov, show

VERIF = extract.VERIF


class ParserInstance:
    """One instantiation of src/skeleton/generated.rs: the functions of `impl Parser`, `impl CstData`,
    ... whose definition lies in a file called generated.rs, grouped by module."""

    def __init__(self, unit, prefix, label, grammar=None):
        self.unit = unit
        self.prefix = prefix  # e.g. "parser" or "frontend::parser" or "g_x::parser"
        self.label = label
        self.grammar = grammar
        self.fns = {}      # "Parser::advance" -> Body
        self.rules = {}    # "rule_x" -> Body
        self.nested = defaultdict(list)  # rule name -> nested fns / closures (Bodies)
        self.user = {}     # callbacks defined outside generated.rs: "Parser::predicate_x" -> Body
        pre = prefix + "::" if prefix else ""
        for b in unit.bodies.values():
            if not b.name.startswith(pre) and not b.name.startswith("<" + pre):
                continue
            rel = b.name[len(pre):] if b.name.startswith(pre) else b.name
            if not b.from_generated():
                mcb = re.match(r"^<(?:[\w:]*::)?Parser(?:<'a>)? as (?:[\w:]*::)?ParserCallbacks(?:<'a>)?>::(\w+)$", rel)
                if mcb:
                    self.user[mcb.group(1)] = b
                continue
            m = re.match(r"Parser::(rule_[A-Za-z0-9_]+)(::.*)?$", rel)
            if m:
                if m.group(2):
                    self.nested[m.group(1)].append(b)
                else:
                    self.rules[m.group(1)] = b
                continue
            self.fns[rel] = b
        self.adt = lambda n: "%s::%s%s" % (unit.crate, pre, n)

    def fn(self, name):
        b = self.fns.get(name)
        if b is None:
            raise MissingAnchor("%s: skeleton function %s not found" % (self.label, name))
        return b

    def token_adt(self):
        """stable id of the Token enum of this parser (type of the parameter of is_skipped)"""
        b = self.fn("Parser::is_skipped")
        adt = b.locals[1].get("adt")
        if not adt:
            raise MissingAnchor("%s: cannot determine the Token type" % self.label)
        return adt

    def all_rule_bodies(self):
        for n, b in sorted(self.rules.items()):
            yield n, b
            for nb in self.nested.get(n, []):
                yield n, nb


def find_instances(unit, label_prefix="", grammar_of=None):
    prefixes = set()
    for b in unit.bodies.values():
        if b.from_generated() and b.name.endswith("Parser::parse_rule"):
            prefixes.add(b.name[: -len("Parser::parse_rule")].rstrip(":"))
    out = []
    for p in sorted(prefixes):
        label = "%s%s%s" % (label_prefix, unit.crate, ("::" + p) if p else "")
        out.append(ParserInstance(unit, p, label, grammar_of(unit, p) if grammar_of else None))
    return out


class Report:
    def __init__(self, prop, tier, seed):
        self.prop = prop
        self.tier = tier
        self.seed = seed
        self.t0 = time.time()
        self.rules = {}          # rule id -> dict(text, obligations, discharged, sites, samples)
        self.violations = []     # dict(rule,key,msg,site,witness)
        self.assumptions = []
        self.extra = {}
        self.analysed = defaultdict(int)

    def rule(self, rid, text):
        r = self.rules.setdefault(rid, {"text": text, "obligations": 0, "discharged": 0, "nontrivial": 0, "samples": []})
        return r

    def ok(self, rid, sample=None, nontrivial=True):
        r = self.rules[rid]
        r["obligations"] += 1
        r["discharged"] += 1
        if nontrivial:
            r["nontrivial"] += 1
        if sample is not None and len(r["samples"]) < 4:
            r["samples"].append(sample)

    def violation(self, rid, key, msg, site=None, witness=None):
        r = self.rules[rid]
        r["obligations"] += 1
        r["nontrivial"] += 1
        self.violations.append({"rule": rid, "key": key, "msg": msg, "site": site, "witness": witness})

    def floor(self, rid, n, what):
        """fail closed when a rule matched fewer instances than were counted on the pinned tree"""
        r = self.rules[rid]
        if r["obligations"] < n:
            self.violation(rid, "floor:%s" % rid, "rule %s matched %d %s, fewer than the %d confirmed by hand on the pinned tree "
                           "(an anchor disappeared; the rule would pass vacuously)" % (rid, r["obligations"], what, n))

    def count(self, what, n=1):
        self.analysed[what] += n

    def assume(self, text):
        if text not in self.assumptions:
            self.assumptions.append(text)


def load_known():
    p = os.path.join(VERIF, "known_findings.json")
    if not os.path.exists(p):
        return {"findings": [], "fixed": []}
    return json.load(open(p))


def finish(rep, level="other", explanation="", exhaustive=None):
    """print findings, write evidence, return exit code"""
    known = load_known()
    kmap = {}
    for k in known.get("findings", []):
        if k["property"] == rep.prop:
            kmap[(k["rule"], k["key"])] = k
    new = []
    seen_known = []
    dedup = set()
    for v in rep.violations:
        kk = (v["rule"], v["key"])
        if kk in dedup:
            continue
        dedup.add(kk)
        if kk in kmap:
            seen_known.append((v, kmap[kk]))
        else:
            new.append(v)
    vdir = os.path.join(extract.EVIDENCE, "violations")
    os.makedirs(vdir, exist_ok=True)
    for f in os.listdir(vdir):
        if f.startswith(rep.prop + "-"):
            os.remove(os.path.join(vdir, f))
    for v, k in seen_known:
        print("KNOWN-FINDING: property=%s rule=%s key=%s -- %s" % (rep.prop, v["rule"], v["key"], k.get("what", v["msg"])))
    for i, v in enumerate(new):
        path = os.path.join(vdir, "%s-%d.json" % (rep.prop, i))
        json.dump(dict(v, property=rep.prop, rule_text=rep.rules[v["rule"]]["text"]), open(path, "w"), indent=1)
        print("[%s] rule %s violated: %s" % (rep.prop, v["rule"], v["msg"]))
        if v.get("site"):
            print("    at %s" % v["site"])
        if v.get("witness"):
            print("    witness: %s" % v["witness"])
        print("    key: %s" % v["key"])
        print("VIOLATION property=%s replay=%s" % (rep.prop, path))
    obligations = sum(r["obligations"] for r in rep.rules.values())
    discharged = sum(r["discharged"] for r in rep.rules.values())
    nontrivial = sum(r["nontrivial"] for r in rep.rules.values())
    samples = []
    for rid, r in rep.rules.items():
        for s in r["samples"][:2]:
            samples.append({"rule": rid, "instance": s})
    if not samples:
        samples = [{"rule": rid, "instance": "(no instance)"} for rid in rep.rules][:1] or ["none"]
    cov = {
        "evaluations": max(1, obligations),
        "distinct_nontrivial": max(nontrivial, 0),
        "rule": "one evaluation per rule instance (a call site, store, switch edge, function or table entry the rule "
                "quantifies over); non-trivial = the instance exists in the analysed MIR and its verdict was computed "
                "from control/data flow (not a constant); distinct by (rule, function, sink, provenance) key",
        "obligations": obligations,
        "discharged": discharged,
        "samples": samples,
        "explanation": explanation,
        "analysed": dict(rep.analysed),
        "rules": {rid: {"text": r["text"], "instances": r["obligations"], "holding": r["discharged"]} for rid, r in rep.rules.items()},
        "known_findings_rederived": [{"rule": v["rule"], "key": v["key"]} for v, _ in seen_known],
        "checker_cmd": "./check %s --tier %s" % (rep.prop, rep.tier),
        "trusted_base": ["rustc nightly MIR construction and Instance::try_resolve", "mirfacts driver (/verif/mirfacts)",
                         "rule engine (/verif/rules)"],
    }
    if exhaustive is not None:
        cov["exhaustive"] = exhaustive
    cov.update(rep.extra)
    ev = {
        "property_id": rep.prop,
        "tier": rep.tier,
        "seed": rep.seed,
        "level": level,
        "coverage": cov,
        "assumptions": rep.assumptions,
        "wall_s": round(time.time() - rep.t0, 2),
        "violations": len(new),
    }
    os.makedirs(extract.EVIDENCE, exist_ok=True)
    json.dump(ev, open(os.path.join(extract.EVIDENCE, rep.prop + ".json"), "w"), indent=1)
    print("[%s] %d rule instances checked by %d rules, %d hold, %d known findings, %d new violations (%.1fs)" % (
        rep.prop, obligations, len(rep.rules), discharged, len(seen_known), len(new), time.time() - rep.t0))
    return 1 if new else 0


class Ctx:
    def __init__(self, tier, seed):
        self.tier = tier
        self.seed = seed
        self._ws = {}
        self._inst = None
        self._corpus = None

    def ws_dir(self, fs="cli_lsp"):
        return extract.workspace_facts(fs)

    def units(self, fs="cli_lsp"):
        if fs not in self._ws:
            d = self.ws_dir(fs)
            us = _load_cached(d)
            self._ws[fs] = us
        return self._ws[fs]

    def unit(self, crate, fs="cli_lsp", kind=None):
        """the unit for `crate`; for the lelwel library the build with the requested features"""
        c = [u for u in self.units(fs) if u.crate == crate]
        if crate == "lelwel":
            # two builds: build-dependency (no features) and the featured library
            c.sort(key=lambda u: -len(u.meta["features"]))
        if not c:
            raise MissingAnchor("no fact unit for crate %s" % crate)
        return c[0]

    def lelwel(self, fs="cli_lsp"):
        return self.unit("lelwel", fs)

    def corpus(self):
        if self._corpus is None:
            d, rep = extract.corpus_facts(self.tier if self.tier == "thorough" else "quick")
            self._corpus = (_load_cached(d), rep)
        return self._corpus

    def instances(self, with_corpus=True):
        """all skeleton instances: frontend::parser of lelwel, ten examples, corpus grammars"""
        if self._inst is None:
            out = []
            for u in self.units():
                if u.crate == "lelwel" and u is not self.lelwel():
                    continue
                if "Executable" in u.meta["types"] and u.crate in ("llw", "lelwel_ls"):
                    continue
                out.extend(find_instances(u))
            self._inst = out
            self._inst_corpus = None
        if with_corpus:
            if self._inst_corpus is None:
                us, rep = self.corpus()
                ci = []
                for u in us:
                    ci.extend(find_instances(u, "corpus:", lambda unit, p: p.split("::")[0]))
                self._inst_corpus = ci
            return self._inst + self._inst_corpus
        return self._inst


_LIBS = set()


def _want(h):
    # examples: analyse the library build only (main.rs re-includes the same modules); an example without a
    # library target (calc) is analysed through its binary
    if h["crate"].startswith("lelwel_") and h["crate"] not in ("lelwel_ls",) and "Executable" in h["types"] and h["crate"] in _LIBS:
        return False
    if h["crate"] == "build_script_build":
        return False
    return True


def _load_cached(d):
    pk = os.path.join(d, "units.pickle")
    if os.path.exists(pk):
        try:
            with open(pk, "rb") as f:
                return pickle.load(f)
        except Exception:
            pass
    import glob as _glob
    from .facts import read_header
    _LIBS.clear()
    for p in _glob.glob(os.path.join(d, "*.jsonl")):
        h = read_header(p)
        if h.get("k") == "crate" and "Executable" not in h["types"]:
            _LIBS.add(h["crate"])
    us = load_units(d, _want)
    try:
        sys.setrecursionlimit(100000)
        with open(pk + ".tmp", "wb") as f:
            pickle.dump(us, f, protocol=pickle.HIGHEST_PROTOCOL)
        os.replace(pk + ".tmp", pk)
    except Exception as e:
        pass
    return us
