//! One module per corpus grammar (see build.rs). Only ever `cargo check`ed.
include!(concat!(env!("OUT_DIR"), "/mods.rs"));
