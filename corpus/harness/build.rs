// Generates a parser for every grammar of the corpus with the lelwel of /repo's working tree,
// exactly as the repository's example crates do from their build scripts.  The emitted code is
// only type-checked and analysed statically; it is never executed.
use std::fmt::Write as _;
use std::path::{Path, PathBuf};

fn main() {
    let out = PathBuf::from(std::env::var("OUT_DIR").unwrap());
    let dir = std::env::var("CORPUS_GRAMMARS").expect("CORPUS_GRAMMARS");
    let skip: Vec<String> = std::env::var("CORPUS_SKIP").unwrap_or_default().split(',').map(|s| s.to_string()).collect();
    println!("cargo:rerun-if-env-changed=CORPUS_SKIP");
    println!("cargo:rerun-if-env-changed=CORPUS_GRAMMARS");
    println!("cargo:rerun-if-changed={dir}");
    let mut names: Vec<(String, PathBuf)> = Vec::new();
    for e in std::fs::read_dir(&dir).unwrap() {
        let p = e.unwrap().path();
        if p.extension().and_then(|e| e.to_str()) == Some("llw") {
            names.push((p.file_stem().unwrap().to_str().unwrap().to_string(), p));
        }
    }
    if let Ok(extra) = std::env::var("CORPUS_EXTRA") {
        for item in extra.split(',').filter(|s| !s.is_empty()) {
            let (n, p) = item.split_once('=').unwrap();
            names.push((n.to_string(), PathBuf::from(p)));
        }
    }
    names.sort();
    let mut mods = String::new();
    let mut report = String::from("[\n");
    let prev_hook = std::panic::take_hook();
    std::panic::set_hook(Box::new(|_| {}));
    for (i, (name, path)) in names.iter().enumerate() {
        let gdir = out.join(name);
        let _ = std::fs::remove_dir_all(&gdir);
        std::fs::create_dir_all(&gdir).unwrap();
        let copy = gdir.join(format!("{name}.llw"));
        std::fs::copy(path, &copy).unwrap();
        let res = std::panic::catch_unwind(|| {
            lelwel::compile(copy.to_str().unwrap(), gdir.to_str().unwrap(), false, false, 0, false, true)
        });
        let status = match res {
            Ok(Ok(true)) => "accepted",
            Ok(Ok(false)) => "rejected",
            Ok(Err(_)) => "io_error",
            Err(_) => "panicked",
        };
        let has_gen = gdir.join("generated.rs").exists();
        let skipped = skip.contains(name);
        if i > 0 {
            report.push_str(",\n");
        }
        let _ = write!(report, " {{\"name\":\"{name}\",\"status\":\"{status}\",\"generated\":{has_gen},\"skipped\":{skipped}}}");
        if status == "accepted" && has_gen && !skipped {
            // the emitted parser.rs includes OUT_DIR/generated.rs; point it at this grammar's file
            let pp = gdir.join("parser.rs");
            let src = std::fs::read_to_string(&pp).unwrap();
            let src = src.replace("\"/generated.rs\"", &format!("\"/{name}/generated.rs\""));
            std::fs::write(&pp, src).unwrap();
            // grammars with `part`: the user has to add the EOF<Part> tokens to the lexer skeleton by hand
            // (as examples/python2/src/lexer.rs does); do the same here
            let generated = std::fs::read_to_string(gdir.join("generated.rs")).unwrap();
            let mut extra: Vec<String> = Vec::new();
            for (idx, _) in generated.match_indices("Token::EOF") {
                let rest = &generated[idx + "Token::EOF".len()..];
                let id: String = rest.chars().take_while(|c| c.is_ascii_alphanumeric() || *c == '_').collect();
                if !id.is_empty() && !extra.contains(&id) {
                    extra.push(id);
                }
            }
            if !extra.is_empty() {
                let lp = gdir.join("lexer.rs");
                let lsrc = std::fs::read_to_string(&lp).unwrap();
                let add: String = extra.iter().map(|e| format!("    EOF{e},\n")).collect();
                let lsrc = lsrc.replacen("    EOF,\n", &format!("    EOF,\n{add}"), 1);
                std::fs::write(&lp, lsrc).unwrap();
            }
            let _ = write!(
                mods,
                "#[allow(dead_code, unused, clippy::all)]\npub mod g_{name} {{\n    pub mod lexer {{ include!(concat!(env!(\"OUT_DIR\"), \"/{name}/lexer.rs\")); }}\n    pub mod parser {{ include!(concat!(env!(\"OUT_DIR\"), \"/{name}/parser.rs\")); }}\n}}\n"
            );
        }
    }
    std::panic::set_hook(prev_hook);
    report.push_str("\n]\n");
    std::fs::write(out.join("mods.rs"), mods).unwrap();
    std::fs::write(out.join("report.json"), &report).unwrap();
    if let Ok(p) = std::env::var("CORPUS_REPORT") {
        std::fs::write(Path::new(&p), &report).unwrap();
    }
}
