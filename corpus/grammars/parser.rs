use super::lexer::{Token, tokenize};

// TODO: change if codespan_reporting is not used
use codespan_reporting::diagnostic::Label;
pub type Diagnostic = codespan_reporting::diagnostic::Diagnostic<()>;

include!(concat!(env!("OUT_DIR"), "/generated.rs"));

impl<'a> ParserCallbacks<'a> for Parser<'a> {
    type Diagnostic = Diagnostic;
    type Context = (); // TODO: add context information to the parser if required

    fn create_tokens(_context: &mut Self::Context, source: &'a str, diags: &mut Vec<Self::Diagnostic>) -> (Vec<Token>, Vec<Span>) {
        tokenize(source, diags)
    }
    fn create_diagnostic(&self, span: Span, message: String) -> Self::Diagnostic {
        Self::Diagnostic::error()
            .with_message(message)
            .with_label(Label::primary((), span))
    }
}
