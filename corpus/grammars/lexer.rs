use super::parser::{Diagnostic, Span};
use codespan_reporting::diagnostic::Label;
use logos::Logos;

#[derive(Debug, Clone, PartialEq, Default)]
pub enum LexerError {
    #[default]
    Invalid,
    // TODO: add more errors if required
}

impl LexerError {
    pub fn into_diagnostic(self, span: Span) -> Diagnostic {
        match self {
            Self::Invalid => Diagnostic::error()
                .with_message("invalid token")
                .with_label(Label::primary((), span)),
        }
    }
}

// TODO: implement lexer
#[allow(clippy::upper_case_acronyms)]
#[derive(Logos, Debug, PartialEq, Copy, Clone)]
#[logos(error = LexerError)]
pub enum Token {
    EOF,
    A,
    B,
    C,
    D,
    Error,
}

// TODO: extend tokenization (e.g. check for mismatched parentheses)
pub fn tokenize(
    source: &str,
    diags: &mut Vec<Diagnostic>,
) -> (Vec<Token>, Vec<Span>) {
    let lexer = Token::lexer(source);
    let mut tokens = vec![];
    let mut spans = vec![];

    for (token, span) in lexer.spanned() {
        match token {
            Ok(token) => {
                tokens.push(token);
            }
            Err(err) => {
                diags.push(err.into_diagnostic(span.clone()));
                tokens.push(Token::Error);
            }
        }
        spans.push(span);
    }
    (tokens, spans)
}
