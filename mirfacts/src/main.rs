// mirfacts: a rustc driver that dumps the MIR of every body of the crate being compiled
// as JSON lines (one file per rustc process).  It knows nothing about lelwel; all rules
// live in /verif/rules.  Used as RUSTC_WORKSPACE_WRAPPER (argv[1] is the real rustc).
#![feature(rustc_private)]

extern crate rustc_abi;
extern crate rustc_driver;
extern crate rustc_hir;
extern crate rustc_interface;
extern crate rustc_middle;
extern crate rustc_span;

use std::collections::{BTreeMap, HashSet};
use std::fmt::Write as _;

use rustc_driver::Compilation;
use rustc_hir::def::DefKind;
use rustc_hir::def_id::DefId;
use rustc_middle::mir::*;
use rustc_middle::ty::{self, Ty, TyCtxt};
use rustc_span::{ExpnKind, Span};

struct Cb;

fn esc(s: &str) -> String {
    let mut o = String::with_capacity(s.len() + 2);
    o.push('"');
    for c in s.chars() {
        match c {
            '"' => o.push_str("\\\""),
            '\\' => o.push_str("\\\\"),
            '\n' => o.push_str("\\n"),
            '\r' => o.push_str("\\r"),
            '\t' => o.push_str("\\t"),
            c if (c as u32) < 0x20 => {
                let _ = write!(o, "\\u{:04x}", c as u32);
            }
            c => o.push(c),
        }
    }
    o.push('"');
    o
}

struct Cx<'tcx> {
    tcx: TyCtxt<'tcx>,
    adts: HashSet<DefId>,
}

impl<'tcx> Cx<'tcx> {
    fn path(&self, did: DefId) -> String {
        self.tcx.def_path_str(did)
    }

    /// crate-qualified, printer-independent id (same string from every crate)
    fn id(&self, did: DefId) -> String {
        format!("{}{}", self.tcx.crate_name(did.krate), self.tcx.def_path(did).to_string_no_crate_verbose())
    }

    fn span(&self, sp: Span) -> String {
        // {"l":"file:line:col","x":"macro"}  l = outermost call site
        let sm = self.tcx.sess.source_map();
        let cs = sp.source_callsite();
        let lo = sm.lookup_char_pos(cs.lo());
        let file = format!("{}", lo.file.name.prefer_local_unconditionally());
        let mut s = format!("{{\"l\":{}", esc(&format!("{}:{}:{}", file, lo.line, lo.col.0 + 1)));
        if sp.from_expansion() {
            // outermost expansion name
            let mut cur = sp;
            let mut names: Vec<String> = Vec::new();
            while cur.from_expansion() {
                let ed = cur.ctxt().outer_expn_data();
                let n = match ed.kind {
                    ExpnKind::Macro(_, name) => format!("{}", name),
                    ExpnKind::Desugaring(k) => format!("desugar:{:?}", k),
                    ExpnKind::AstPass(k) => format!("astpass:{:?}", k),
                    ExpnKind::Root => "root".to_string(),
                };
                names.push(n);
                cur = ed.call_site;
            }
            let _ = write!(s, ",\"x\":[{}]", names.iter().map(|n| esc(n)).collect::<Vec<_>>().join(","));
        }
        s.push('}');
        s
    }

    fn ty_adt_path(&mut self, ty: Ty<'tcx>) -> Option<String> {
        match ty.kind() {
            ty::Adt(def, _) => {
                self.adts.insert(def.did());
                Some(self.id(def.did()))
            }
            _ => None,
        }
    }

    fn place(&mut self, body: &Body<'tcx>, p: &Place<'tcx>) -> String {
        let tcx = self.tcx;
        let mut s = format!("{{\"l\":{},\"p\":[", p.local.as_usize());
        let mut pty = rustc_middle::mir::PlaceTy::from_ty(body.local_decls[p.local].ty);
        let mut first = true;
        for elem in p.projection.iter() {
            if !first {
                s.push(',');
            }
            first = false;
            match elem {
                ProjectionElem::Deref => s.push_str("\"*\""),
                ProjectionElem::Field(f, _) => {
                    let mut name = format!("{}", f.as_usize());
                    let mut adt = String::new();
                    let mut variant = String::new();
                    match pty.ty.kind() {
                        ty::Adt(def, _) => {
                            self.adts.insert(def.did());
                            adt = self.id(def.did());
                            let v = match pty.variant_index {
                                Some(vi) => def.variant(vi),
                                None => {
                                    if def.is_enum() {
                                        def.variant(rustc_abi::VariantIdx::from_usize(0))
                                    } else {
                                        def.non_enum_variant()
                                    }
                                }
                            };
                            if def.is_enum() {
                                variant = format!("{}", v.name);
                            }
                            if let Some(fd) = v.fields.get(f) {
                                name = format!("{}", fd.name);
                            }
                        }
                        ty::Closure(did, _) => {
                            adt = format!("closure:{}", self.id(*did));
                            if let Some(ld) = did.as_local() {
                                let caps = tcx.closure_captures(ld);
                                if let Some(c) = caps.get(f.as_usize()) {
                                    name = c.to_string(tcx);
                                }
                            }
                        }
                        _ => {}
                    }
                    let _ = write!(s, "{{\"f\":{},\"n\":{},\"adt\":{},\"v\":{}}}", f.as_usize(), esc(&name), esc(&adt), esc(&variant));
                }
                ProjectionElem::Index(l) => {
                    let _ = write!(s, "{{\"i\":{}}}", l.as_usize());
                }
                ProjectionElem::ConstantIndex { offset, min_length, from_end } => {
                    let _ = write!(s, "{{\"ci\":{},\"min\":{},\"fe\":{}}}", offset, min_length, from_end);
                }
                ProjectionElem::Subslice { from, to, from_end } => {
                    let _ = write!(s, "{{\"sub\":[{},{}],\"fe\":{}}}", from, to, from_end);
                }
                ProjectionElem::Downcast(name, vi) => {
                    let n = match name {
                        Some(n) => format!("{}", n),
                        None => match pty.ty.kind() {
                            ty::Adt(def, _) => format!("{}", def.variant(vi).name),
                            _ => format!("{}", vi.as_usize()),
                        },
                    };
                    let adt = self.ty_adt_path(pty.ty).unwrap_or_default();
                    let _ = write!(s, "{{\"dc\":{},\"vi\":{},\"adt\":{}}}", esc(&n), vi.as_usize(), esc(&adt));
                }
                ProjectionElem::OpaqueCast(_) => s.push_str("\"opaque\""),
                ProjectionElem::UnwrapUnsafeBinder(_) => s.push_str("\"unwrapbinder\""),
            }
            pty = pty.projection_ty(tcx, elem);
        }
        s.push_str("]}");
        s
    }

    fn fn_const(&mut self, caller: DefId, did: DefId, args: ty::GenericArgsRef<'tcx>) -> String {
        let tcx = self.tcx;
        let mut s = format!("\"fn\":{},\"fid\":{},\"ga\":{}", esc(&self.path(did)), esc(&self.id(did)), esc(&format!("{:?}", args)));
        // closures mentioned in the generic args
        let mut clos: Vec<String> = Vec::new();
        for a in args.iter() {
            if let Some(t) = a.as_type() {
                collect_closures(tcx, t, &mut clos, 0);
            }
        }
        if !clos.is_empty() {
            let _ = write!(s, ",\"gclos\":[{}]", clos.iter().map(|c| esc(c)).collect::<Vec<_>>().join(","));
        }
        let env = ty::TypingEnv::post_analysis(tcx, caller);
        let res = std::panic::catch_unwind(std::panic::AssertUnwindSafe(|| ty::Instance::try_resolve(tcx, env, did, args)));
        match res {
            Ok(Ok(Some(inst))) => {
                let rd = inst.def_id();
                let _ = write!(s, ",\"res\":{},\"rid\":{}", esc(&self.path(rd)), esc(&self.id(rd)));
                let kind = match inst.def {
                    ty::InstanceKind::Item(_) => "item",
                    ty::InstanceKind::Virtual(..) => "virtual",
                    ty::InstanceKind::Intrinsic(_) => "intrinsic",
                    ty::InstanceKind::ClosureOnceShim { .. } => "closure_once",
                    ty::InstanceKind::FnPtrShim(..) => "fnptr_shim",
                    ty::InstanceKind::CloneShim(..) => "clone_shim",
                    ty::InstanceKind::DropGlue(..) => "drop_glue",
                    _ => "other",
                };
                let _ = write!(s, ",\"rk\":{}", esc(kind));
                if tcx.def_kind(rd) == DefKind::Closure {
                    let _ = write!(s, ",\"rclos\":true");
                }
            }
            _ => {
                s.push_str(",\"res\":null");
            }
        }
        // impl self type of the (resolved or declared) callee, trait of declared callee
        if let Some(tr) = tcx.trait_of_assoc(did) {
            let _ = write!(s, ",\"trait\":{}", esc(&self.path(tr)));
        }
        s
    }

    fn operand(&mut self, body: &Body<'tcx>, caller: DefId, o: &Operand<'tcx>) -> String {
        match o {
            Operand::Copy(p) => format!("{{\"c\":{}}}", self.place(body, p)),
            Operand::Move(p) => format!("{{\"m\":{}}}", self.place(body, p)),
            Operand::Constant(c) => {
                let ty = c.const_.ty();
                let mut s = if matches!(ty.kind(), ty::FnDef(..)) { "{\"k\":{\"ty\":\"fn\"".to_string() } else { format!("{{\"k\":{{\"ty\":{}", esc(&format!("{}", ty))) };
                match ty.kind() {
                    ty::FnDef(did, args) => {
                        s.push(',');
                        s.push_str(&self.fn_const(caller, *did, args));
                    }
                    ty::Closure(did, _) => {
                        let _ = write!(s, ",\"closure\":{}", esc(&self.id(*did)));
                    }
                    _ => {
                        let env = ty::TypingEnv::post_analysis(self.tcx, caller);
                        if ty.is_integral() || ty.is_bool() || ty.is_char() {
                            if let Some(si) = c.const_.try_eval_scalar_int(self.tcx, env) {
                                let size = si.size();
                                let v: i128 = if ty.is_signed() { si.to_int(size) } else { si.to_uint(size) as i128 };
                                let _ = write!(s, ",\"v\":{}", v);
                            }
                        } else if let ty::Ref(_, inner, _) = ty.kind() {
                            if inner.is_str() {
                                // string literal
                                if let Const::Val(val, _) = c.const_ {
                                    if let Some(bytes) = val.try_get_slice_bytes_for_diagnostics(self.tcx) {
                                        if let Ok(st) = std::str::from_utf8(bytes) {
                                            let _ = write!(s, ",\"str\":{}", esc(st));
                                        }
                                    }
                                }
                            }
                        }
                        if let ty::Adt(def, _) = ty.kind() {
                            self.adts.insert(def.did());
                            // field-less enum constant
                            if def.is_enum() {
                                if let Some(si) = c.const_.try_eval_scalar_int(self.tcx, env) {
                                    let _ = write!(s, ",\"v\":{}", si.to_uint(si.size()));
                                }
                            }
                        }
                        // promoted / named const
                        if let Const::Unevaluated(uv, _) = c.const_ {
                            let _ = write!(s, ",\"cdef\":{}", esc(&self.path(uv.def)));
                            if let Some(p) = uv.promoted {
                                let _ = write!(s, ",\"promoted\":{}", p.as_usize());
                            }
                        }
                    }
                }
                s.push_str("}}");
                s
            }
            Operand::RuntimeChecks(_) => "{\"k\":{\"ty\":\"bool\",\"rt\":true}}".to_string(),
        }
    }

    fn rvalue(&mut self, body: &Body<'tcx>, caller: DefId, rv: &Rvalue<'tcx>) -> String {
        match rv {
            Rvalue::Use(o, _) => format!("{{\"r\":\"use\",\"o\":{}}}", self.operand(body, caller, o)),
            Rvalue::Repeat(o, _) => format!("{{\"r\":\"repeat\",\"o\":{}}}", self.operand(body, caller, o)),
            Rvalue::Ref(_, bk, p) => {
                let k = match bk {
                    BorrowKind::Shared => "shared",
                    BorrowKind::Fake(_) => "fake",
                    BorrowKind::Mut { .. } => "mut",
                };
                format!("{{\"r\":\"ref\",\"bk\":\"{}\",\"p\":{}}}", k, self.place(body, p))
            }
            Rvalue::ThreadLocalRef(d) => format!("{{\"r\":\"tls\",\"d\":{}}}", esc(&self.path(*d))),
            Rvalue::RawPtr(k, p) => format!("{{\"r\":\"rawptr\",\"k\":{},\"p\":{}}}", esc(&format!("{:?}", k)), self.place(body, p)),
            Rvalue::Cast(k, o, t) => format!(
                "{{\"r\":\"cast\",\"k\":{},\"o\":{},\"ty\":{}}}",
                esc(&format!("{:?}", k)),
                self.operand(body, caller, o),
                esc(&format!("{}", t))
            ),
            Rvalue::BinaryOp(op, b) => format!(
                "{{\"r\":\"bin\",\"op\":\"{:?}\",\"a\":{},\"b\":{}}}",
                op,
                self.operand(body, caller, &b.0),
                self.operand(body, caller, &b.1)
            ),
            Rvalue::UnaryOp(op, o) => format!("{{\"r\":\"un\",\"op\":\"{:?}\",\"o\":{}}}", op, self.operand(body, caller, o)),
            Rvalue::Discriminant(p) => {
                let pty = p.ty(&body.local_decls, self.tcx).ty;
                let adt = self.ty_adt_path(pty).unwrap_or_default();
                format!("{{\"r\":\"discr\",\"p\":{},\"adt\":{}}}", self.place(body, p), esc(&adt))
            }
            Rvalue::Aggregate(k, ops) => {
                let kind = match &**k {
                    AggregateKind::Array(_) => "\"k\":\"array\"".to_string(),
                    AggregateKind::Tuple => "\"k\":\"tuple\"".to_string(),
                    AggregateKind::Adt(did, vi, _, _, _) => {
                        self.adts.insert(*did);
                        let def = self.tcx.adt_def(*did);
                        let v = def.variant(*vi);
                        let fields: Vec<String> = v.fields.iter().map(|f| esc(&format!("{}", f.name))).collect();
                        format!(
                            "\"k\":\"adt\",\"adt\":{},\"v\":{},\"vi\":{},\"fields\":[{}]",
                            esc(&self.id(*did)),
                            esc(&format!("{}", v.name)),
                            vi.as_usize(),
                            fields.join(",")
                        )
                    }
                    AggregateKind::Closure(did, _) => format!("\"k\":\"closure\",\"closure\":{}", esc(&self.id(*did))),
                    AggregateKind::Coroutine(did, _) => format!("\"k\":\"coroutine\",\"closure\":{}", esc(&self.path(*did))),
                    AggregateKind::CoroutineClosure(did, _) => format!("\"k\":\"coroutine_closure\",\"closure\":{}", esc(&self.path(*did))),
                    AggregateKind::RawPtr(..) => "\"k\":\"rawptr\"".to_string(),
                };
                let os: Vec<String> = ops.iter().map(|o| self.operand(body, caller, o)).collect();
                format!("{{\"r\":\"agg\",{},\"ops\":[{}]}}", kind, os.join(","))
            }
            Rvalue::CopyForDeref(p) => format!("{{\"r\":\"use\",\"o\":{{\"c\":{}}}}}", self.place(body, p)),
            Rvalue::WrapUnsafeBinder(o, _) => format!("{{\"r\":\"use\",\"o\":{}}}", self.operand(body, caller, o)),
        }
    }

    fn body(&mut self, did: DefId, body: &Body<'tcx>, out: &mut String) {
        let tcx = self.tcx;
        let kind = tcx.def_kind(did);
        let mut s = String::new();
        let _ = write!(
            s,
            "{{\"k\":\"body\",\"crate\":{},\"path\":{},\"id\":{},\"dk\":{},\"span\":{}",
            esc(&format!("{}", tcx.crate_name(did.krate))),
            esc(&self.path(did)),
            esc(&self.id(did)),
            esc(&format!("{:?}", kind)),
            self.span(tcx.def_span(did))
        );
        // parent (closure → enclosing item; nested fn → lexical parent)
        let parent = tcx.parent(did);
        let _ = write!(s, ",\"parent\":{},\"parent_id\":{},\"parent_dk\":{}", esc(&self.path(parent)), esc(&self.id(parent)), esc(&format!("{:?}", tcx.def_kind(parent))));
        if kind == DefKind::Closure {
            let tb = tcx.typeck_root_def_id(did);
            let _ = write!(s, ",\"root\":{}", esc(&self.path(tb)));
            if let Some(ld) = did.as_local() {
                let caps: Vec<String> = tcx
                    .closure_captures(ld)
                    .iter()
                    .map(|c| {
                        let by = match c.info.capture_kind {
                            ty::UpvarCapture::ByValue => "value",
                            ty::UpvarCapture::ByUse => "use",
                            ty::UpvarCapture::ByRef(ty::BorrowKind::Immutable) => "ref",
                            ty::UpvarCapture::ByRef(_) => "mut",
                        };
                        format!("{{\"n\":{},\"by\":\"{}\"}}", esc(&c.to_string(tcx)), by)
                    })
                    .collect();
                let _ = write!(s, ",\"upvars\":[{}]", caps.join(","));
            }
        }
        if matches!(kind, DefKind::AssocFn) {
            if let Some(imp) = tcx.impl_of_assoc(did) {
                let st = tcx.type_of(imp).instantiate_identity().skip_norm_wip();
                let _ = write!(s, ",\"impl_self\":{}", esc(&format!("{}", st)));
                if let Some(tr) = tcx.impl_opt_trait_ref(imp) {
                    let _ = write!(s, ",\"impl_trait\":{}", esc(&self.path(tr.skip_binder().def_id)));
                }
            } else if let Some(tr) = tcx.trait_of_assoc(did) {
                let _ = write!(s, ",\"in_trait\":{}", esc(&self.path(tr)));
            }
        }
        if matches!(kind, DefKind::Fn | DefKind::AssocFn) {
            let vis = tcx.visibility(did);
            let _ = write!(s, ",\"pub\":{}", vis.is_public());
        }
        let _ = write!(s, ",\"argc\":{}", body.arg_count);
        // locals
        s.push_str(",\"locals\":[");
        for (i, ld) in body.local_decls.iter().enumerate() {
            if i > 0 {
                s.push(',');
            }
            let mut clos = Vec::new();
            collect_closures(tcx, ld.ty, &mut clos, 0);
            let _ = write!(s, "{{\"ty\":{}", esc(&format!("{}", ld.ty)));
            if !clos.is_empty() {
                let _ = write!(s, ",\"clos\":[{}]", clos.iter().map(|c| esc(c)).collect::<Vec<_>>().join(","));
            }
            if let Some(a) = self.ty_adt_path(ld.ty.peel_refs()) {
                let _ = write!(s, ",\"adt\":{}", esc(&a));
            }
            s.push('}');
        }
        s.push(']');
        // debug names
        s.push_str(",\"vars\":[");
        let mut first = true;
        for vdi in body.var_debug_info.iter() {
            if let VarDebugInfoContents::Place(p) = &vdi.value {
                if !first {
                    s.push(',');
                }
                first = false;
                let _ = write!(s, "{{\"n\":{},\"p\":{}}}", esc(&format!("{}", vdi.name)), self.place(body, p));
            }
        }
        s.push(']');
        // blocks
        s.push_str(",\"blocks\":[");
        for (bi, bb) in body.basic_blocks.iter().enumerate() {
            if bi > 0 {
                s.push(',');
            }
            let _ = write!(s, "{{\"cl\":{},\"s\":[", bb.is_cleanup);
            let mut firsts = true;
            for st in bb.statements.iter() {
                let js = match &st.kind {
                    StatementKind::Assign(b) => {
                        let (p, rv) = &**b;
                        Some(format!(
                            "{{\"a\":{},\"rv\":{},\"sp\":{}}}",
                            self.place(body, p),
                            self.rvalue(body, did, rv),
                            self.span(st.source_info.span)
                        ))
                    }
                    StatementKind::SetDiscriminant { place, variant_index } => {
                        let pty = place.ty(&body.local_decls, tcx).ty;
                        let vn = match pty.kind() {
                            ty::Adt(def, _) => format!("{}", def.variant(*variant_index).name),
                            _ => String::new(),
                        };
                        Some(format!(
                            "{{\"sd\":{},\"v\":{},\"vi\":{},\"sp\":{}}}",
                            self.place(body, place),
                            esc(&vn),
                            variant_index.as_usize(),
                            self.span(st.source_info.span)
                        ))
                    }
                    _ => None,
                };
                if let Some(js) = js {
                    if !firsts {
                        s.push(',');
                    }
                    firsts = false;
                    s.push_str(&js);
                }
            }
            s.push_str("],\"t\":");
            let term = bb.terminator();
            let sp = self.span(term.source_info.span);
            let t = match &term.kind {
                TerminatorKind::Goto { target } => format!("{{\"t\":\"goto\",\"to\":{}}}", target.as_usize()),
                TerminatorKind::SwitchInt { discr, targets } => {
                    let mut arms: Vec<String> = Vec::new();
                    for (v, t) in targets.iter() {
                        arms.push(format!("[{},{}]", v, t.as_usize()));
                    }
                    format!(
                        "{{\"t\":\"switch\",\"d\":{},\"arms\":[{}],\"else\":{},\"sp\":{}}}",
                        self.operand(body, did, discr),
                        arms.join(","),
                        targets.otherwise().as_usize(),
                        sp
                    )
                }
                TerminatorKind::UnwindResume => "{\"t\":\"resume\"}".to_string(),
                TerminatorKind::UnwindTerminate(_) => "{\"t\":\"abort\"}".to_string(),
                TerminatorKind::Return => "{\"t\":\"return\"}".to_string(),
                TerminatorKind::Unreachable => "{\"t\":\"unreachable\"}".to_string(),
                TerminatorKind::Drop { place, target, .. } => {
                    format!("{{\"t\":\"drop\",\"p\":{},\"to\":{}}}", self.place(body, place), target.as_usize())
                }
                TerminatorKind::Call { func, args, destination, target, .. } => {
                    let f = self.operand(body, did, func);
                    let a: Vec<String> = args.iter().map(|a| self.operand(body, did, &a.node)).collect();
                    // for non-constant callee, give type of func operand
                    let fty = if matches!(func, Operand::Constant(_)) { String::new() } else { format!("{}", func.ty(&body.local_decls, tcx)) };
                    format!(
                        "{{\"t\":\"call\",\"f\":{},\"fty\":{},\"args\":[{}],\"dest\":{},\"to\":{},\"sp\":{}}}",
                        f,
                        esc(&fty),
                        a.join(","),
                        self.place(body, destination),
                        match target {
                            Some(t) => format!("{}", t.as_usize()),
                            None => "null".to_string(),
                        },
                        sp
                    )
                }
                TerminatorKind::TailCall { func, args, .. } => {
                    let f = self.operand(body, did, func);
                    let a: Vec<String> = args.iter().map(|a| self.operand(body, did, &a.node)).collect();
                    format!("{{\"t\":\"tailcall\",\"f\":{},\"args\":[{}],\"sp\":{}}}", f, a.join(","), sp)
                }
                TerminatorKind::Assert { cond, expected, msg, target, .. } => {
                    let (mk, extra) = match &**msg {
                        AssertKind::BoundsCheck { len, index } => (
                            "bounds".to_string(),
                            format!(",\"len\":{},\"index\":{}", self.operand(body, did, len), self.operand(body, did, index)),
                        ),
                        AssertKind::Overflow(op, a, b) => (
                            format!("overflow:{:?}", op),
                            format!(",\"a\":{},\"b\":{}", self.operand(body, did, a), self.operand(body, did, b)),
                        ),
                        AssertKind::OverflowNeg(_) => ("overflow_neg".to_string(), String::new()),
                        AssertKind::DivisionByZero(_) => ("div0".to_string(), String::new()),
                        AssertKind::RemainderByZero(_) => ("rem0".to_string(), String::new()),
                        AssertKind::MisalignedPointerDereference { .. } => ("misaligned".to_string(), String::new()),
                        AssertKind::NullPointerDereference => ("nullptr".to_string(), String::new()),
                        AssertKind::InvalidEnumConstruction(_) => ("invalid_enum".to_string(), String::new()),
                        _ => ("other".to_string(), String::new()),
                    };
                    format!(
                        "{{\"t\":\"assert\",\"cond\":{},\"exp\":{},\"msg\":{}{},\"to\":{},\"sp\":{}}}",
                        self.operand(body, did, cond),
                        expected,
                        esc(&mk),
                        extra,
                        target.as_usize(),
                        sp
                    )
                }
                TerminatorKind::FalseEdge { real_target, .. } => format!("{{\"t\":\"goto\",\"to\":{}}}", real_target.as_usize()),
                TerminatorKind::FalseUnwind { real_target, .. } => format!("{{\"t\":\"goto\",\"to\":{}}}", real_target.as_usize()),
                TerminatorKind::Yield { .. } => "{\"t\":\"yield\"}".to_string(),
                TerminatorKind::CoroutineDrop => "{\"t\":\"coroutine_drop\"}".to_string(),
                TerminatorKind::InlineAsm { .. } => "{\"t\":\"asm\"}".to_string(),
            };
            s.push_str(&t);
            s.push('}');
        }
        s.push_str("]}\n");
        out.push_str(&s);
    }
}

fn collect_closures<'tcx>(tcx: TyCtxt<'tcx>, t: Ty<'tcx>, out: &mut Vec<String>, depth: usize) {
    if depth > 6 {
        return;
    }
    match t.kind() {
        ty::Closure(did, _) => out.push(format!("{}{}", tcx.crate_name(did.krate), tcx.def_path(*did).to_string_no_crate_verbose())),
        ty::FnDef(did, args) => {
            out.push(format!("fn:{}{}", tcx.crate_name(did.krate), tcx.def_path(*did).to_string_no_crate_verbose()));
            for a in args.iter() {
                if let Some(t) = a.as_type() {
                    collect_closures(tcx, t, out, depth + 1);
                }
            }
        }
        ty::Ref(_, inner, _) => collect_closures(tcx, *inner, out, depth + 1),
        ty::RawPtr(inner, _) => collect_closures(tcx, *inner, out, depth + 1),
        ty::Adt(_, args) => {
            for a in args.iter() {
                if let Some(t) = a.as_type() {
                    collect_closures(tcx, t, out, depth + 1);
                }
            }
        }
        ty::Tuple(ts) => {
            for t in ts.iter() {
                collect_closures(tcx, t, out, depth + 1);
            }
        }
        ty::Slice(inner) | ty::Array(inner, _) => collect_closures(tcx, *inner, out, depth + 1),
        _ => {}
    }
}

impl rustc_driver::Callbacks for Cb {
    fn after_analysis<'tcx>(&mut self, _compiler: &rustc_interface::interface::Compiler, tcx: TyCtxt<'tcx>) -> Compilation {
        let dir = match std::env::var("MIRFACTS_DIR") {
            Ok(d) => d,
            Err(_) => return Compilation::Continue,
        };
        if tcx.dcx().has_errors().is_some() {
            return Compilation::Continue;
        }
        let krate = format!("{}", tcx.crate_name(rustc_hir::def_id::LOCAL_CRATE));
        // crate filter: only crates whose manifest dir is below one of MIRFACTS_ROOTS (':'-separated)
        if let Ok(roots) = std::env::var("MIRFACTS_ROOTS") {
            let md = std::env::var("CARGO_MANIFEST_DIR").unwrap_or_default();
            if !roots.split(':').any(|r| !r.is_empty() && md.starts_with(r)) {
                return Compilation::Continue;
            }
        }
        let mut cx = Cx { tcx, adts: HashSet::new() };
        let mut out = String::new();
        let crate_types: Vec<String> = tcx.crate_types().iter().map(|c| format!("{:?}", c)).collect();
        let is_test = tcx.sess.opts.test;
        let cfgs: Vec<String> = std::env::args().collect();
        let mut feats: Vec<String> = Vec::new();
        let mut it = cfgs.iter();
        while let Some(a) = it.next() {
            if a == "--cfg" {
                if let Some(v) = it.next() {
                    if v.starts_with("feature=") {
                        feats.push(v.clone());
                    }
                }
            }
        }
        let src = tcx
            .sess
            .local_crate_source_file()
            .and_then(|f| f.local_path().map(|p| p.display().to_string()))
            .unwrap_or_default();
        let _ = write!(
            out,
            "{{\"k\":\"crate\",\"crate\":{},\"types\":[{}],\"test\":{},\"features\":[{}],\"src\":{},\"manifest_dir\":{},\"pkg\":{}}}\n",
            esc(&krate),
            crate_types.iter().map(|c| esc(c)).collect::<Vec<_>>().join(","),
            is_test,
            feats.iter().map(|c| esc(c)).collect::<Vec<_>>().join(","),
            esc(&src),
            esc(&std::env::var("CARGO_MANIFEST_DIR").unwrap_or_default()),
            esc(&std::env::var("CARGO_PKG_NAME").unwrap_or_default()),
        );
        for ld in tcx.mir_keys(()).iter() {
            let did = ld.to_def_id();
            let kind = tcx.def_kind(did);
            if !matches!(kind, DefKind::Fn | DefKind::AssocFn | DefKind::Closure) {
                continue;
            }
            if !tcx.is_mir_available(did) {
                continue;
            }
            let body = tcx.optimized_mir(did);
            cx.body(did, body, &mut out);
        }
        // ADT tables (local and foreign ADTs mentioned anywhere)
        let mut all: HashSet<DefId> = cx.adts.clone();
        for id in tcx.hir_crate_items(()).definitions() {
            let did = id.to_def_id();
            if matches!(tcx.def_kind(did), DefKind::Enum | DefKind::Struct) {
                all.insert(did);
            }
        }
        let sorted: BTreeMap<String, DefId> = all.into_iter().map(|d| (tcx.def_path_str(d), d)).collect();
        for (_, did) in sorted {
            let def = tcx.adt_def(did);
            let mut s = format!(
                "{{\"k\":\"adt\",\"crate\":{},\"path\":{},\"local\":{},\"enum\":{},\"variants\":[",
                esc(&krate),
                esc(&format!("{}{}", tcx.crate_name(did.krate), tcx.def_path(did).to_string_no_crate_verbose())),
                did.is_local(),
                def.is_enum()
            );
            let discrs: Vec<u128> = if def.is_enum() { def.discriminants(tcx).map(|(_, d)| d.val).collect() } else { vec![0; def.variants().len()] };
            for (i, v) in def.variants().iter().enumerate() {
                if i > 0 {
                    s.push(',');
                }
                let fields: Vec<String> = v
                    .fields
                    .iter()
                    .map(|f| {
                        let fty = tcx.type_of(f.did).instantiate_identity().skip_norm_wip();
                        format!("{{\"n\":{},\"ty\":{}}}", esc(&format!("{}", f.name)), esc(&format!("{}", fty)))
                    })
                    .collect();
                let _ = write!(s, "{{\"n\":{},\"d\":{},\"fields\":[{}]}}", esc(&format!("{}", v.name)), discrs.get(i).copied().unwrap_or(0), fields.join(","));
            }
            s.push_str("]}\n");
            out.push_str(&s);
        }
        let fname = format!(
            "{}/{}-{}-{}.jsonl",
            dir,
            krate,
            if is_test { "test" } else { "n" },
            std::process::id()
        );
        std::fs::write(&fname, out).expect("mirfacts: cannot write fact file");
        Compilation::Continue
    }
}

fn main() {
    let mut args: Vec<String> = std::env::args().collect();
    // RUSTC_WORKSPACE_WRAPPER: argv[1] is the path of the real rustc
    if args.len() > 1 && (args[1].ends_with("rustc") || args[1].contains("/rustc")) {
        args.remove(1);
    }
    let mut cb = Cb;
    rustc_driver::run_compiler(&args, &mut cb);
}
