#!/bin/sh
# Builds the mirfacts driver (nightly, rustc_private, zero dependencies) and warms the fact cache for /repo's
# current tree (workspace + corpus).  Offline; everything comes from files on disk.
set -e
cd "$(dirname "$0")"
export CARGO_NET_OFFLINE=true
(cd mirfacts && cargo build --release --offline)
test -x mirfacts/target/release/mirfacts
python3 - <<'PY'
import sys
sys.path.insert(0, ".")
from rules import core
ctx = core.Ctx("quick", 0)
n = len(ctx.instances(with_corpus=True))
print("setup: %d parser instances extracted" % n)
assert n >= 30
PY
