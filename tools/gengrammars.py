#!/usr/bin/env python3
"""tools/gengrammars.py <outdir> [--seed N] [--count N]
Development-time generator of the committed thorough corpus (corpus/thorough/*.llw): seeded random grammars over every operator
of the grammar language, kept only when /repo's `llw -c` accepts them (no error).  It is not run by any check; the checks read the
committed files."""
import random, subprocess, sys, os, argparse, hashlib

TOK = ["A", "B", "C", "D", "E", "F", "G", "H", "I", "J"]


class Gen:
    def __init__(self, rng, family):
        self.r = rng
        self.family = family
        self.rules = {}
        self.order = []
        self.marker = 0
        self.renames = 0
        self.used_tokens = set()
        self.preds = 0
        self.actions = 0

    def tok(self):
        t = self.r.choice(TOK)
        self.used_tokens.add(t)
        return t

    def leaf(self, depth, rule):
        x = self.r.random()
        if x < 0.7 or depth <= 0 or len(self.order) > 5:
            return self.tok()
        # reference to a new helper rule
        name = "r%d" % len(self.order)
        self.order.append(name)
        self.rules[name] = None
        self.rules[name] = self.regex(depth - 1, name, top=True)
        return name

    def regex(self, depth, rule, top=False):
        r = self.r
        fam = self.family
        x = r.random()
        if depth <= 0:
            return self.leaf(0, rule)
        if fam == "oc" and top and x < 0.6:
            n = r.choice([2, 2, 3])
            alts = []
            shared = self.tok()
            for i in range(n):
                body = [shared] if r.random() < 0.7 else [self.tok()]
                if r.random() < 0.3 and i < n - 1:
                    body.append("~")
                body.append(self.concat(depth - 1, rule))
                alts.append(" ".join(body))
            return "(" + " / ".join(alts) + ")"
        if x < 0.30:
            n = r.choice([2, 2, 3])
            alts = [self.concat(depth - 1, rule, branch=True) for _ in range(n)]
            return "(" + " | ".join(alts) + ")"
        if x < 0.45:
            return "[" + self.concat(depth - 1, rule) + "]"
        if x < 0.60:
            return "(" + self.concat(depth - 1, rule) + ")*"
        if x < 0.70:
            return "(" + self.concat(depth - 1, rule) + ")+"
        return self.concat(depth - 1, rule)

    def concat(self, depth, rule, branch=False):
        r = self.r
        n = r.choice([1, 2, 2, 3])
        parts = []
        if self.family == "pred" and branch and r.random() < 0.4:
            self.preds += 1
            parts.append("?%d" % self.preds if r.random() < 0.8 else "?t")
        for i in range(n):
            if depth > 0 and r.random() < 0.35:
                parts.append(self.regex(depth, rule))
            else:
                parts.append(self.leaf(depth, rule))
            if self.family == "node":
                y = r.random()
                if y < 0.10:
                    self.marker += 1
                    m = self.marker
                    parts.insert(max(0, len(parts) - 1), "<%d" % m)
                    parts.append("%d>n%d" % (m, m))
                elif y < 0.16 and rule != "s":
                    parts.append("^")
                elif y < 0.24 and rule != "s":
                    self.renames += 1
                    parts.append("@k%d" % self.renames)
                elif y < 0.28 and rule != "s":
                    parts.append("&")
                elif y < 0.31:
                    parts.append(">w%d" % self.renames)
                elif y < 0.35:
                    self.actions += 1
                    parts.append("#%d" % self.actions)
        return " ".join(parts)

    def pratt(self):
        r = self.r
        n = r.choice([2, 3, 4, 5])
        branches = []
        right = []
        for i in range(n):
            k = r.choice(["pre", "post", "inl", "inr", "tern", "call"])
            t = "'t%d'" % i
            ren = (" @b%d" % i) if r.random() < 0.5 else ""
            if k == "pre":
                branches.append("%s e%s" % (t, ren))
            elif k == "post":
                branches.append("e %s%s" % (t, ren))
            elif k == "inl":
                branches.append("e %s e%s" % (t, ren))
            elif k == "inr":
                branches.append("e %s e%s" % (t, ren))
                right.append(t)
            elif k == "tern":
                branches.append("e %s e 'c%d' e%s" % (t, i, ren))
            else:
                branches.append("e %s [e (',' e)*] 'x%d'%s" % (t, i, ren))
        branches.append("Num" + (" @num" if r.random() < 0.5 else ""))
        branches.append("'(' e ')'")
        toks = ["Num", "LPar='('", "RPar=')'", "Comma=','"]
        for i in range(n):
            toks += ["T%d='t%d'" % (i, i), "C%d='c%d'" % (i, i), "X%d='x%d'" % (i, i)]
        g = "token " + " ".join(toks) + ";\n"
        if right:
            g += "right " + " ".join(right) + ";\n"
        g += "start s;\ns: e;\ne:\n  " + "\n| ".join(branches) + "\n;\n"
        return g

    def grammar(self):
        if self.family == "pratt":
            return self.pratt()
        self.order = ["s"]
        self.rules["s"] = None
        self.rules["s"] = self.regex(3, "s", top=True)
        if self.family == "parts":
            # a second entry point
            pass
        g = "token " + " ".join(TOK) + " Ws;\nskip Ws;\nstart s;\n"
        if self.family == "parts" and len(self.order) > 1:
            g += "part " + " ".join(self.order[1:3]) + ";\n"
        for n in self.order:
            elide = "^" if (self.family == "node" and n != "s" and self.r.random() < 0.15) else ""
            g += "%s%s: %s;\n" % (n, elide, self.rules[n])
        return g


def accepted(llw, text, tmp):
    p = os.path.join(tmp, "g.llw")
    open(p, "w").write(text)
    r = subprocess.run([llw, "-c", p], capture_output=True, text=True)
    return r.returncode == 0


def main():
    ap = argparse.ArgumentParser()
    ap.add_argument("out")
    ap.add_argument("--seed", type=int, default=1)
    ap.add_argument("--count", type=int, default=40)
    ap.add_argument("--llw", default="/repo/target/debug/llw")
    a = ap.parse_args()
    os.makedirs(a.out, exist_ok=True)
    tmp = os.path.join(a.out, ".tmp")
    os.makedirs(tmp, exist_ok=True)
    rng = random.Random(a.seed)
    seen = set()
    fams = ["ebnf", "node", "oc", "pratt", "parts", "pred"]
    kept = {f: 0 for f in fams}
    tried = 0
    while min(kept.values()) < a.count and tried < a.count * 400:
        fam = min(fams, key=lambda f: kept[f])
        tried += 1
        try:
            text = Gen(rng, fam).grammar()
        except RecursionError:
            continue
        h = hashlib.sha1(text.encode()).hexdigest()[:10]
        if h in seen or len(text) > 1500:
            continue
        seen.add(h)
        if accepted(a.llw, text, tmp):
            kept[fam] += 1
            name = "t_%s_%03d" % (fam, kept[fam])
            open(os.path.join(a.out, name + ".llw"), "w").write("// generated by tools/gengrammars.py --seed %d (family %s)\n%s" % (a.seed, fam, text))
    for f in os.listdir(tmp):
        os.remove(os.path.join(tmp, f))
    os.rmdir(tmp)
    print("tried", tried, "kept", kept)


main()
