#!/usr/bin/env python3
"""tools/keepall.py -- runs tools/keepseed.py for every entry of tools/seedmeta.json whose result file exists and is complete"""
import json, os, subprocess, sys
V = os.path.dirname(os.path.dirname(os.path.abspath(__file__)))
for e in json.load(open(os.path.join(V, "tools", "seedmeta.json"))):
    tag = {"/tmp/seed": "", "/tmp/seed2": "R2", "/tmp/seed3": "R3"}[e["root"]] + e["id"]
    rf = "/tmp/seed/results/%s_%s.json" % (tag, e["k"])
    if not os.path.exists(rf):
        print("no result yet:", e["name"]); continue
    try:
        r = json.load(open(rf))
    except Exception:
        print("unparsed:", e["name"]); continue
    if not r.get("checks"):
        print("no checks:", e["name"]); continue
    cmd = [sys.executable, os.path.join(V, "tools", "keepseed.py"), e["root"], e["id"], e["k"], e["name"], e["summary"], e["needs"]]
    if e.get("note"):
        cmd += ["--note", e["note"]]
    if e.get("verify_from"):
        cmd += ["--verify-from", e["verify_from"]]
    p = subprocess.run(cmd, capture_output=True, text=True)
    print((p.stdout + p.stderr).strip()[-300:])
