#!/usr/bin/env python3
"""tools/keepseed.py <root> <ID> <k> <name> "<summary>" "<needs>" [--note "..."]
copies a confirmed seeded change (<root>/<ID>/OUT/<k>/) into /verif/seeded/<name>/ with a meta.json built from the result file of
tools/seedrun.py (/tmp/seed/results/<tag>_<k>.json)."""
import sys, os, json, shutil, re, argparse
ap = argparse.ArgumentParser()
ap.add_argument("root"); ap.add_argument("pid"); ap.add_argument("k"); ap.add_argument("name"); ap.add_argument("summary"); ap.add_argument("needs")
ap.add_argument("--note", default="")
ap.add_argument("--verify-from", default=None, help="result file of the original (un-rebased) patch whose verification steps are reused for a rebased patch")
a = ap.parse_args()
tag = {"/tmp/seed": "", "/tmp/seed2": "R2", "/tmp/seed3": "R3", "/tmp/seed4": "R4"}[a.root.rstrip("/")] + a.pid
src = os.path.join(a.root, a.pid, "OUT", a.k)
res = json.load(open("/tmp/seed/results/%s_%s.json" % (tag, a.k)))
st = res["steps"]
if a.verify_from:
    st = dict(json.load(open(a.verify_from))["steps"], apply=st.get("apply"))
assert st.get("tests") == {"passed": 59, "failed": 0}, st.get("tests")
assert st["demo_patched"]["rc"] != 0 and st["demo_clean"]["rc"] == 0, (st["demo_patched"]["rc"], st["demo_clean"]["rc"])
dst = "/verif/seeded/%s" % a.name
shutil.rmtree(dst, ignore_errors=True)
os.makedirs(dst)
shutil.copy(os.path.join(src, "patch.diff"), dst)
shutil.copytree(os.path.join(src, "demo"), os.path.join(dst, "demo"), ignore=shutil.ignore_patterns("target", "*.log", "Cargo.lock"))
if os.path.exists(os.path.join(src, "README.md")):
    shutil.copy(os.path.join(src, "README.md"), os.path.join(dst, "AUTHOR_NOTES.md"))
caught = {p: c["violations"] for p, c in res["checks"].items() if c["rc"] == 1}
rules = sorted({"%s:%s" % (p, m.group(1)) for p, vs in caught.items() for v in vs for m in [re.search(r"rule (\w+) violated", v)] if m})
meta = {
    "breaks_property": a.pid,
    "summary": a.summary,
    "needs_to_manifest": a.needs,
    "origin": "written by an independent sub-agent that saw only the property text and a scratch worktree of /repo (round %d)" % (1 if tag == a.pid else 2),
    "applies_to_repo_commit": res.get("repo_commit", ""),
    "checks_from_verif_commit": res.get("verif_commit", ""),
    "confirmed_by": {
        "commands": ["git apply patch.diff (scratch worktree at /repo's HEAD)", "cargo build --workspace --features cli,lsp --offline",
                     "cargo test --workspace --no-fail-fast --offline", "demo/run.sh <worktree> (patched)", "git checkout -- . ; demo/run.sh <worktree> (clean)"],
        "tests": st["tests"], "demo_patched_rc": st["demo_patched"]["rc"], "demo_clean_rc": st["demo_clean"]["rc"],
        "demo_patched_tail": st["demo_patched"]["tail"][-400:],
    },
    "checks_run_against_it": {p: {"exit": c["rc"], "violations": c["violations"][:3]} for p, c in res["checks"].items()},
    "detected_by": sorted(caught),
    "detected_by_rules": ", ".join(rules),
}
if a.note:
    meta["note"] = a.note
json.dump(meta, open(os.path.join(dst, "meta.json"), "w"), indent=1)
print(dst, "detected_by", sorted(caught), rules)
