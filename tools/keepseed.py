#!/usr/bin/env python3
"""tools/keepseed.py <ID> <k> "<summary>" "<needs>"  -- copies a confirmed seeded change into /verif/seeded/<ID>-<k>/"""
import sys, os, json, shutil
pid, k, summary, needs = sys.argv[1:5]
src = "/tmp/seed/%s/OUT/%s" % (pid, k)
res = json.load(open("/tmp/seed/results/%s_%s.json" % (pid, k)))
st = res["steps"]
assert st["tests"] == {"passed": 59, "failed": 0}, st["tests"]
assert st["demo_patched"]["rc"] != 0 and st["demo_clean"]["rc"] == 0, (st["demo_patched"]["rc"], st["demo_clean"]["rc"])
dst = "/verif/seeded/%s-%s" % (pid, k)
shutil.rmtree(dst, ignore_errors=True)
os.makedirs(dst)
shutil.copy(os.path.join(src, "patch.diff"), dst)
shutil.copytree(os.path.join(src, "demo"), os.path.join(dst, "demo"), ignore=shutil.ignore_patterns("target", "*.log", "Cargo.lock"))
if os.path.exists(os.path.join(src, "README.md")):
    shutil.copy(os.path.join(src, "README.md"), os.path.join(dst, "AUTHOR_NOTES.md"))
caught = {p: c["violations"][:3] for p, c in res["checks"].items() if c["rc"] == 1}
meta = {
    "breaks_property": pid,
    "summary": summary,
    "needs_to_manifest": needs,
    "origin": "written by an independent sub-agent that saw only the property text and a scratch worktree of /repo",
    "confirmed_by": {
        "commands": ["git apply patch.diff (scratch worktree at /repo's HEAD)", "cargo build --workspace --features cli,lsp --offline",
                     "cargo test --workspace --no-fail-fast --offline", "demo/run.sh <worktree> (patched)", "git checkout -- . ; demo/run.sh <worktree> (clean)"],
        "tests": st["tests"], "demo_patched_rc": st["demo_patched"]["rc"], "demo_clean_rc": st["demo_clean"]["rc"],
        "demo_patched_tail": st["demo_patched"]["tail"][-400:],
    },
    "checks_run_against_it": {p: {"exit": c["rc"], "violations": c["violations"][:3]} for p, c in res["checks"].items()},
    "detected_by": sorted(caught),
}
json.dump(meta, open(os.path.join(dst, "meta.json"), "w"), indent=1)
print(dst, "detected_by", sorted(caught))
