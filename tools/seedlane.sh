#!/bin/bash
# tools/seedlane.sh <lane-name> <snapshot-dir> [--recheck] ROOT:ID...   -- one lane of the seeded-change queue: its own cache directory,
# checks taken from <snapshot-dir> (a copy of /verif's HEAD made by the caller)
LANE=$1; SNAP=$2; shift 2
RECHECK=""
if [ "$1" = "--recheck" ]; then RECHECK="--skip-verify"; shift; fi
for item in "$@"; do
  root=${item%%:*}; id=${item##*:}
  wt=$root/$id
  tag=$id; [ "$root" = "/tmp/seed2" ] && tag=R2$id; [ "$root" = "/tmp/seed3" ] && tag=R3$id; [ "$root" = "/tmp/seed4" ] && tag=R4$id
  git -C $wt checkout -q -- . 2>/dev/null
  git -C $wt checkout -q --detach main
  for d in $wt/OUT/*/; do
    k=$(basename $d)
    [ -f $d/patch.diff ] || continue
    python3 /verif/tools/seedrun.py $wt $k --verif $SNAP --cache /tmp/seed/vcache_$LANE --tag $tag $RECHECK > /tmp/seed/results/${tag}_$k.json.new 2>&1 && mv /tmp/seed/results/${tag}_$k.json.new /tmp/seed/results/${tag}_$k.json
    echo "$(date +%H:%M) lane $LANE done $tag $k $RECHECK" >> /tmp/seed/results/queue.log
  done
done
