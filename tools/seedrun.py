#!/usr/bin/env python3
"""tools/seedrun.py <worktree> <k> [--props C01,C02,..] [--skip-verify]
Confirms a seeded change delivered under <worktree>/OUT/<k>/ (patch applies, workspace builds, the 59 tests pass, the
demonstration fails with the change and passes without it) and runs the registered checks against the changed tree
(VERIF_REPO=<worktree>, separate cache and evidence directories so /verif's own evidence is untouched).  Development aid;
no registered check depends on it."""
import sys, os, subprocess, json, re, time, argparse

ap = argparse.ArgumentParser()
ap.add_argument("wt")
ap.add_argument("k")
ap.add_argument("--props", default="")
ap.add_argument("--skip-verify", action="store_true")
ap.add_argument("--patch", default=None)
ap.add_argument("--cache", default="/tmp/seed/vcache")
ap.add_argument("--tag", default=None, help="name used for the result and evidence files (default: basename of the worktree)")
ap.add_argument("--verif", default=None, help="directory of the /verif snapshot whose checks are run")
a = ap.parse_args()
wt = os.path.abspath(a.wt)
out = os.path.join(wt, "OUT", a.k)
patch = a.patch or os.path.join(out, "patch.diff")
VERIF = a.verif or os.path.dirname(os.path.dirname(os.path.abspath(__file__)))
res = {"worktree": wt, "k": a.k, "steps": {}}
TAG = a.tag or os.path.basename(wt)
prev_path = "/tmp/seed/results/%s_%s.json" % (TAG, a.k)
if a.skip_verify and os.path.exists(prev_path):
    try:
        res["steps"] = json.load(open(prev_path))["steps"]
    except Exception:
        pass


def sh(cmd, cwd=wt, env=None, timeout=3600):
    t0 = time.time()
    r = subprocess.run(cmd, shell=True, cwd=cwd, env=env, capture_output=True, text=True, timeout=timeout)
    return r.returncode, r.stdout + r.stderr, round(time.time() - t0, 1)


def clean():
    sh("git checkout -- . && git clean -fdq -e OUT -e target")


clean()
rc, o, t = sh("git apply --check %s && git apply %s" % (patch, patch))
res["steps"]["apply"] = rc
res["verif_commit"] = subprocess.run("git -C /verif log --oneline -1", shell=True, capture_output=True, text=True).stdout.strip()
res["repo_commit"] = subprocess.run("git -C %s log --oneline -1" % wt, shell=True, capture_output=True, text=True).stdout.strip()
if rc != 0:
    print(o)
    print(json.dumps(res))
    sys.exit(1)
try:
    if not a.skip_verify:
        for attempt in range(3):
            rc, o, t = sh("cargo build --workspace --features cli,lsp --offline 2>&1 | tail -5")
            rc2, o2, t2 = sh("cargo test --workspace --no-fail-fast --offline 2>&1 | grep -E '^test result|FAILED|panicked|error(\\[|:)' ")
            passed = sum(int(m) for m in re.findall(r"(\d+) passed", o2))
            failed = sum(int(m) for m in re.findall(r"(\d+) failed", o2))
            if passed == 59 and failed == 0:
                break
        res["steps"]["tests"] = {"passed": passed, "failed": failed}
        rc, o, t = sh("bash %s %s" % (os.path.join(out, "demo", "run.sh"), wt), timeout=1800)
        res["steps"]["demo_patched"] = {"rc": rc, "s": t, "tail": o[-600:]}
    env = dict(os.environ, VERIF_REPO=wt, VERIF_CACHE=a.cache, VERIF_EVIDENCE="/tmp/seed/results/ev_%s_%s" % (TAG, a.k))
    props = [p for p in a.props.split(",") if p] or [c["property_id"] for c in json.load(open(os.path.join(VERIF, "MANIFEST.json")))["checks"]]
    res["checks"] = {}
    for p in props:
        rc, o, t = sh("./check %s" % p, cwd=VERIF, env=env)
        viol = [l for l in o.splitlines() if l.startswith("[%s] rule" % p) or l.startswith("ERROR")]
        res["checks"][p] = {"rc": rc, "s": t, "violations": [v[:400] for v in viol][:8]}
finally:
    clean()
if not a.skip_verify:
    rc, o, t = sh("bash %s %s" % (os.path.join(out, "demo", "run.sh"), wt), timeout=1800)
    res["steps"]["demo_clean"] = {"rc": rc, "s": t, "tail": o[-300:]}
    clean()
print(json.dumps(res, indent=1))
