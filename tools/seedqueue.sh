#!/bin/bash
# tools/seedqueue.sh ID...   -- for each id: move the worktree to /repo's HEAD and run seedrun for every delivered change
for id in "$@"; do
  wt=/tmp/seed/$id
  git -C $wt checkout -q -- . 2>/dev/null
  git -C $wt checkout -q --detach main
  for d in $wt/OUT/*/; do
    k=$(basename $d)
    [ -f $d/patch.diff ] || continue
    python3 /verif/tools/seedrun.py $wt $k > /tmp/seed/results/${id}_$k.json 2>&1
    echo "$(date +%H:%M) done $id $k" >> /tmp/seed/results/queue.log
  done
done
