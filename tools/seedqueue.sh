#!/bin/bash
# tools/seedqueue.sh [--recheck] ID...   -- for each id: move the worktree to /repo's HEAD and run seedrun for every delivered
# change, with the checks taken from a snapshot of /verif's HEAD (so that edits in progress do not disturb the run)
RECHECK=""
if [ "$1" = "--recheck" ]; then RECHECK="--skip-verify"; shift; fi
SNAP=/tmp/seed/vsnap
rm -rf $SNAP; mkdir -p $SNAP
git -C /verif archive HEAD | tar -x -C $SNAP
mkdir -p $SNAP/mirfacts/target/release
cp /verif/mirfacts/target/release/mirfacts $SNAP/mirfacts/target/release/
for id in "$@"; do
  wt=/tmp/seed/$id
  git -C $wt checkout -q -- . 2>/dev/null
  git -C $wt checkout -q --detach main
  for d in $wt/OUT/*/; do
    k=$(basename $d)
    [ -f $d/patch.diff ] || continue
    python3 /verif/tools/seedrun.py $wt $k --verif $SNAP $RECHECK > /tmp/seed/results/${id}_$k.json.new 2>&1 && mv /tmp/seed/results/${id}_$k.json.new /tmp/seed/results/${id}_$k.json
    echo "$(date +%H:%M) done $id $k $RECHECK" >> /tmp/seed/results/queue.log
  done
done
