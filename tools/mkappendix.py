#!/usr/bin/env python3
"""tools/mkappendix.py -- regenerates the two generated parts of DESIGN.md: the table of seeded changes (from seeded/*/meta.json) and
the appendix with the rule texts as the checks evaluate them (from evidence/*.json)."""
import json, glob, os, re
V = os.path.dirname(os.path.dirname(os.path.abspath(__file__)))
s = open(os.path.join(V, "DESIGN.md")).read()

rows = []
for d in sorted(glob.glob(os.path.join(V, "seeded", "*"))):
    mp = os.path.join(d, "meta.json")
    if not os.path.exists(mp):
        continue
    m = json.load(open(mp))
    name = os.path.basename(d)
    det = ", ".join(m.get("detected_by") or []) or "**missed**"
    why = m.get("detected_by_rules") or ""
    rows.append("| %s | %s | %s | %s | %s |" % (name, m["breaks_property"], m["summary"].replace("|", "\\|")[:170], det, (why or m.get("note", "")).replace("|", "\\|")[:150]))
seed_tab = ("<!-- SEEDED:BEGIN -->\n| change | breaks | what it does | detected by | rule(s) / note |\n|---|---|---|---|---|\n" + "\n".join(rows) + "\n<!-- SEEDED:END -->")
if "<!-- SEEDED:BEGIN -->" in s:
    s = re.sub(r"<!-- SEEDED:BEGIN -->.*?<!-- SEEDED:END -->", lambda _: seed_tab, s, flags=re.S)
else:
    s = s.replace("### Seeded changes (`/verif/seeded/`) and which check catches them\n", "### Seeded changes (`/verif/seeded/`) and which check catches them\n\n" + seed_tab + "\n", 1)

app = ["<!-- RULES:BEGIN -->", "## Appendix B — rule texts as evaluated (generated from the evidence files by tools/mkappendix.py)", ""]
for f in sorted(glob.glob(os.path.join(V, "evidence", "C*.json"))):
    e = json.load(open(f))
    app.append("**%s** (%s tier run; %d rule instances, %d hold)" % (e["property_id"], e["tier"], e["coverage"].get("obligations", 0), e["coverage"].get("discharged", 0)))
    app.append("")
    for rid, r in e["coverage"].get("rules", {}).items():
        app.append("* `%s` (%d instances): %s" % (rid, r["instances"], r["text"]))
    app.append("")
app.append("<!-- RULES:END -->")
app = "\n".join(app)
if "<!-- RULES:BEGIN -->" in s:
    s = re.sub(r"<!-- RULES:BEGIN -->.*?<!-- RULES:END -->", lambda _: app, s, flags=re.S)
else:
    s = s.rstrip("\n") + "\n\n---------------------------------------------------------------------------------------------\n\n" + app + "\n"
open(os.path.join(V, "DESIGN.md"), "w").write(s)
print("seeded rows:", len(rows))
