#!/bin/bash
# tools/refac_try.sh <refactorings/NAME>... -- applies each behaviour-preserving patch in a scratch worktree of /repo (outside /repo and
# /verif), runs every registered check against it and prints the checks that report something (each such line is a false alarm)
set -u
V=$(cd "$(dirname "$0")/.." && pwd)
W=$(mktemp -d /tmp/refac_wt.XXXX); C=$(mktemp -d /tmp/refac_cache.XXXX)
git -C /repo worktree add -q --detach "$W/wt" HEAD
for d in "$@"; do
  d=$(cd "$d" && pwd)
  echo "=== $d"
  git -C "$W/wt" checkout -q -- . && git -C "$W/wt" apply "$d/patch.diff" || { echo "APPLY FAILED"; continue; }
  for c in $(python3 -c "import json;print(' '.join(x['property_id'] for x in json.load(open('$V/MANIFEST.json'))['checks']))"); do
    (cd "$V" && VERIF_REPO="$W/wt" VERIF_CACHE="$C" VERIF_EVIDENCE="$C/evidence" ./check $c 2>&1 | grep -E "^\[C[0-9]+\] rule" | cut -c1-300)
  done
done
git -C /repo worktree remove --force "$W/wt"; rm -rf "$W" "$C"
